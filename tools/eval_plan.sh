#!/bin/bash
# eval_plan.sh <plan-file> : each line "<worktree-id> <k> <checks...>"; runs tools/try_seeded.py (no baseline:
# the suite result comes from tools/baseline_wt.sh) and prints one summary line per seeded change.
while read ID k CHECKS; do
  [ -z "$ID" ] && continue
  P=/tmp/wt/$ID/SEEDED/$k/patch.diff
  [ -f $P ] || { echo "$ID/$k: no patch"; continue; }
  python3 /verif/tools/try_seeded.py $P --no-baseline $CHECKS 2>&1 | tail -1 | python3 -c "
import json,sys
try:
    d=json.loads(sys.stdin.read()); print('$ID/$k', {k:(v['exit'],v['violations'],v['keys'][:2],v['machinery'][:1],v['wall_s']) for k,v in d['results'].items()})
except Exception as e: print('$ID/$k ERR',e)"
done < $1
