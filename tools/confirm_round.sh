#!/bin/bash
# confirm_round.sh <rN> : run every round-N demonstration that is a single in-workspace cargo test, with
# and without its seeded change, in the agent's scratch worktree; keep patch + demo + log under
# /verif/seeded/<ID>-<k>/ when it fails with the change and passes without it.
declare -A DIR=([swiftness_stark]=crates/stark [swiftness_fri]=crates/fri [swiftness_air]=crates/air [swiftness_commitment]=crates/commitment [swiftness_pow]=crates/pow [swiftness_transcript]=crates/transcript)
R=${1:-r3}; shift
IDS="$@"; [ -z "$IDS" ] && IDS=$(ls -d /tmp/wt/C*$R | xargs -n1 basename | sed "s/$R$//")
for d in $(for i in $IDS; do ls -d /tmp/wt/$i$R/SEEDED/*/; done); do
  id=$(echo $d | cut -d/ -f4); k=$(basename $d); WT=/tmp/wt/$id
  f=$(ls $d/demo/*.rs 2>/dev/null | head -1); [ -z "$f" ] && continue
  cmd=$(grep -hE "^ *cargo test" $d/demo/README.md | head -1 | sed 's/^ *//')
  case "$cmd" in *\\|*'$f'*|"") echo "$id/$k SKIP (manual)"; continue;; esac
  pkg=$(echo "$cmd" | grep -oE "\-p [a-z_]+" | cut -d' ' -f2); cdir=${DIR[$pkg]}; [ -z "$cdir" ] && { echo "$id/$k SKIP (pkg)"; continue; }
  args=$(echo "$cmd" | sed 's/^cargo test//; s/ 2>&1.*$//; s/|.*$//')
  OUT=/verif/seeded/${id%$R}-$R-$k; mkdir -p $OUT/demo
  cd $WT; git checkout -q -- crates cli proof_parser 2>/dev/null; git clean -fdq crates 2>/dev/null
  git apply SEEDED/$k/patch.diff || { echo "$id/$k patch does not apply"; continue; }
  mkdir -p $cdir/tests; cp $d/demo/*.rs $cdir/tests/
  W=$(cargo test $args 2>&1 | grep -E "^test result" | tr '\n' ' ')
  git apply -R SEEDED/$k/patch.diff
  WO=$(cargo test $args 2>&1 | grep -E "^test result" | tr '\n' ' ')
  rm -rf $cdir/tests; git checkout -q -- crates 2>/dev/null
  ok=no; echo "$W" | grep -q FAILED && ! echo "$WO" | grep -q FAILED && echo "$WO" | grep -q "ok\." && ok=yes
  echo "$id/$k confirmed=$ok | with: $W | without: $WO"
  if [ $ok = yes ]; then
    cp SEEDED/$k/patch.diff $OUT/; cp SEEDED/$k/notes.md $OUT/ 2>/dev/null; cp $d/demo/*.rs $d/demo/README.md $OUT/demo/ 2>/dev/null
    printf "command: cargo test %s\n### WITH the seeded change\n%s\n### WITHOUT the seeded change\n%s\n" "$args" "$W" "$WO" > $OUT/confirm.log
  else
    rmdir $OUT/demo $OUT 2>/dev/null
  fi
done
