p='crates/stark/src/config.rs'; s=open(p).read()
a=s.index("        ensure!(log_expected_input_degree == self.log_trace_domain_size")
b=s.index(";", a)+1
s=s[:a]+"let _ = log_expected_input_degree;"+s[b:]
open(p,'w').write(s)
