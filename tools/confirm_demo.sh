#!/bin/bash
# confirm_demo.sh <ID> <crate-dir> <package> <test-file> [extra cargo test args...]
# Runs an agent's demonstration test in ITS scratch worktree /tmp/wt/<ID>, with and without
# the seeded change, and stores patch + demo + log under /verif/seeded/<ID>/.
ID=$1; CRATEDIR=$2; PKG=$3; TESTFILE=$4; shift 4
WT=/tmp/wt/$ID; OUT=/verif/seeded/$ID
mkdir -p $OUT/demo; cp $WT/SEEDED/patch.diff $OUT/; cp -r $WT/SEEDED/demo/. $OUT/demo/; cp $WT/SEEDED/notes.md $OUT/ 2>/dev/null
cd $WT || exit 2
NAME=$(basename $TESTFILE .rs)
# normalise: start from the change applied
git checkout -q -- crates cli proof_parser 2>/dev/null; git apply SEEDED/patch.diff || { echo "patch does not apply"; exit 2; }
mkdir -p $CRATEDIR/tests; cp SEEDED/demo/$TESTFILE $CRATEDIR/tests/
{
echo "### WITH the seeded change"; cargo test -p $PKG --test $NAME --offline "$@" 2>&1 | grep -E "^test |^test result|error(\[|:)" | head -30; W=${PIPESTATUS[0]}
echo "exit=$W"
git apply -R SEEDED/patch.diff
echo "### WITHOUT the seeded change"; cargo test -p $PKG --test $NAME --offline "$@" 2>&1 | grep -E "^test |^test result|error(\[|:)" | head -30; WO=${PIPESTATUS[0]}
echo "exit=$WO"
git apply SEEDED/patch.diff
} > $OUT/confirm.log 2>&1
rm -f $CRATEDIR/tests/$TESTFILE
grep -E "^###|^test result|^exit" $OUT/confirm.log
