#!/bin/bash
# Runs the repository's own test suite (guard off - there are no hooks) and prints the pass count.
cd /repo && cargo test --workspace --no-fail-fast --offline 2>&1 | awk '/^test result/ {p+=$4; f+=$6} /^test .* FAILED/ {print} END {print "passed=" p " failed=" f; exit (f>0 || p!=45)}'
