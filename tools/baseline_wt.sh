#!/bin/bash
# baseline_wt.sh <worktree-id> : run the repository's own test suite in the agent's scratch worktree
# with each of its seeded changes applied (same command as tools/baseline.sh), print passed/failed.
ID=$1; WT=/tmp/wt/$ID
for k in 1 2 3; do
  P=$WT/SEEDED/$k/patch.diff; [ -f $P ] || continue
  cd $WT; git checkout -q -- crates cli proof_parser 2>/dev/null; git clean -fdq crates 2>/dev/null
  git apply $P || { echo "$ID/$k patch does not apply"; continue; }
  out=$(cargo test --workspace --no-fail-fast --offline 2>&1)
  p=$(echo "$out" | grep -E "^test result" | sed -E 's/.* ([0-9]+) passed.*/\1/' | paste -sd+ | bc)
  f=$(echo "$out" | grep -E "^test result" | sed -E 's/.* ([0-9]+) failed.*/\1/' | paste -sd+ | bc)
  ce=$(echo "$out" | grep -c "^error")
  echo "$ID/$k passed=$p failed=$f compile_errors=$ce"
  git apply -R $P; git checkout -q -- crates cli proof_parser 2>/dev/null; git clean -fdq crates 2>/dev/null
done
