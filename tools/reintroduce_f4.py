p='crates/stark/src/config.rs'; s=open(p).read()
s=s.replace("self.log_n_cosets >= Felt::ONE && self.log_n_cosets <= MAX_LOG_BLOWUP_FACTOR.into()","self.log_n_cosets <= MAX_LOG_BLOWUP_FACTOR.into()")
open(p,'w').write(s)
