p='crates/fri/src/fri.rs'; s=open(p).read()
s=s.replace("        table_decommit(\n            target_commitment,","        let _ = table_decommit(\n            target_commitment,")
s=s.replace("        )\n        .map_err(|_| Error::LayerDecommitmentError)?;\n\n        queries = next_queries;","        );\n\n        queries = next_queries;")
open(p,'w').write(s)
