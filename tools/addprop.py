#!/usr/bin/env python3
# dev helper: register props/<id>.rs in props/mod.rs  (usage: addprop.py c05 [full])
import sys
p='/verif/harness/swv/src/props/mod.rs'; s=open(p).read()
m=sys.argv[1]; full=len(sys.argv)>2
ID=m.upper()
g='#[cfg(feature = "full")]\n' if full else ''
gi='        #[cfg(feature = "full")]\n' if full else ''
if f'pub mod {m};' in s: sys.exit(0)
s=s.replace('pub mod c12;', f'{g}pub mod {m};\npub mod c12;')
s=s.replace('        "C12" => Some(c12::run(ctx)),', f'{gi}        "{ID}" => Some({m}::run(ctx)),\n        "C12" => Some(c12::run(ctx)),')
s=s.replace('        "C12" => c12::replay(ctx, case),', f'{gi}        "{ID}" => {m}::replay(ctx, case),\n        "C12" => c12::replay(ctx, case),')
open(p,'w').write(s)
