#!/usr/bin/env python3
"""Unpack every cached .crate of both cargo registry caches into /verif/vendor as a
cargo *directory source* (see DESIGN.md 2.2).  Idempotent; nothing is fetched."""
import glob, hashlib, json, os, sys, tarfile

ROOT = os.path.dirname(os.path.dirname(os.path.abspath(__file__)))
VENDOR = os.path.join(ROOT, "vendor")
CACHE = os.path.expanduser("~/.cargo/registry/cache")


def main():
    os.makedirs(VENDOR, exist_ok=True)
    crates = sorted(glob.glob(os.path.join(CACHE, "*", "*.crate")))
    if not crates:
        print("MACHINERY-ERROR: no cached crates under", CACHE, file=sys.stderr)
        return 2
    n_new = 0
    for path in crates:
        name = os.path.basename(path)[: -len(".crate")]
        dest = os.path.join(VENDOR, name)
        marker = os.path.join(dest, ".cargo-checksum.json")
        if os.path.exists(marker):
            continue
        with open(path, "rb") as f:
            digest = hashlib.sha256(f.read()).hexdigest()
        with tarfile.open(path, "r:gz") as t:
            t.extractall(VENDOR)
        if not os.path.isdir(dest):
            print("MACHINERY-ERROR: crate", path, "did not unpack to", dest, file=sys.stderr)
            return 2
        with open(marker, "w") as f:
            json.dump({"files": {}, "package": digest}, f)
        n_new += 1
    print(f"vendor: {len(crates)} crates cached, {n_new} newly unpacked into {VENDOR}")
    return 0


if __name__ == "__main__":
    sys.exit(main())
