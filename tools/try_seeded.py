#!/usr/bin/env python3
"""try_seeded.py <patch.diff> [--tier quick|thorough] [--no-baseline] CNN [CNN ...]

Applies a seeded change to /repo (git apply), optionally runs the repository's own test
suite (must stay green: passed=45), runs the named checks, reports which of them exit 1
with a VIOLATION line, and ALWAYS restores /repo (git checkout -- . ; removes untracked files
the patch added).  Prints one JSON line: {"patch":..., "baseline":..., "results": {id: {...}}}.
"""
import json, os, subprocess, sys, time

ROOT = os.path.dirname(os.path.dirname(os.path.abspath(__file__)))


def sh(cmd, **kw):
    return subprocess.run(cmd, shell=True, text=True, stdout=subprocess.PIPE, stderr=subprocess.STDOUT, **kw)


def main():
    args = sys.argv[1:]
    patch = os.path.abspath(args[0])
    tier = "quick"
    baseline = True
    props = []
    i = 1
    while i < len(args):
        if args[i] == "--tier":
            tier = args[i + 1]; i += 2
        elif args[i] == "--no-baseline":
            baseline = False; i += 1
        else:
            props.append(args[i]); i += 1
    st = sh("git -C /repo status --porcelain")
    if st.stdout.strip():
        print("refusing: /repo working tree is not clean:\n" + st.stdout)
        sys.exit(2)
    ap = sh(f"git -C /repo apply {patch}")
    if ap.returncode != 0:
        print("git apply failed:\n" + ap.stdout)
        sys.exit(2)
    out = {"patch": patch, "tier": tier, "results": {}}
    try:
        if baseline:
            b = sh(os.path.join(ROOT, "tools/baseline.sh"))
            out["baseline"] = b.stdout.strip().splitlines()[-1] if b.stdout.strip() else "?"
            out["baseline_green"] = b.returncode == 0
        for p in props:
            t0 = time.time()
            r = sh(f"{ROOT}/check {p} --tier {tier}", cwd=ROOT)
            viol = [l for l in r.stdout.splitlines() if l.startswith("VIOLATION")]
            keys = [l.strip()[4:] for l in r.stdout.splitlines() if l.strip().startswith("key=")]
            mach = [l for l in r.stdout.splitlines() if "MACHINERY-ERROR" in l]
            out["results"][p] = {"exit": r.returncode, "violations": len(viol), "keys": keys[:6], "machinery": mach[:2], "wall_s": round(time.time() - t0, 1)}
    finally:
        sh("git -C /repo checkout -- .")
        sh("git -C /repo clean -fdq -- crates cli proof_parser")
    print(json.dumps(out))


if __name__ == "__main__":
    main()
