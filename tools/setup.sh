#!/bin/bash
# MANIFEST.setup_cmd: vendor the cached crates and pre-build every harness binary, offline.
cd "$(dirname "$0")/.." || exit 2
python3 tools/vendor.py || exit 2
exec ./check --setup
