#!/bin/bash
# MANIFEST.setup_cmd: vendor the cached crates and pre-build every harness binary, offline.
set -u
cd "$(dirname "$0")/.."
python3 tools/vendor.py || exit 2
python3 - <<'PY'
import importlib.util, sys, os
spec = importlib.util.spec_from_loader("check", loader=None)
src = open("check").read()
mod = type(sys)("check"); mod.__file__ = os.path.abspath("check")
exec(compile(src.replace('if __name__ == "__main__":\n    main()', ''), "check", "exec"), mod.__dict__)
mod.build_all(mod.HASH4, "lite", 4)
mod.build_all(mod.ALL8, "full", 4)
print("setup: all harness binaries built")
PY
