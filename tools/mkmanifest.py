#!/usr/bin/env python3
"""Regenerates /verif/MANIFEST.json from the table below (kept next to the code so that the
claimed checks, techniques and not_applicable list stay in sync)."""
import json, os

ROOT = os.path.dirname(os.path.dirname(os.path.abspath(__file__)))

# id -> (category, technique, level text, level note)
CHECKS = {
 "C01": ("model_checking", "explicit-state exploration of the proof protocol as a game: bounded adversary, 6 rounds with finite move menus (quick: all vectors with <= 2 dishonest moves + 6 named three-move attacks; thorough: all 3 024 move vectors), every terminal state assembled by an in-harness prover and run on the real StarkProof::verify; plus an exhaustive single-deviation sweep of the dynamic layout's self-declared column / offset parameters through the real check_asserts",
         "every prover strategy of a finite move menu (configuration re-declarations, decoupled composition values, vector lengths, FRI of an unrelated polynomial, adaptive leaves, forged paths) with a trace that violates the AIR is rejected; states/transitions of the game tree are reported",
         "bounded adversary, one small trace size per layout; hash collision resistance and FRI soundness error are assumptions"),
 "C02": ("exploration", "exhaustive single-deviation sweep (every position x mutation menu, every single-element deletion) of honest proofs on the real verifier",
         "every leaf and every vector element of the serde tree of each honest proof is mutated once (quick: full sweep of the recursive proofs of the 3 native builds, one representative per position class on the other layouts); no mutant may be accepted",
         "exactly one deviation; builds without a shipped proof are covered at component level (C04-C07)"),
 "C03": ("exploration", "complete enumeration of the finite (honest proof x build x layout) space with an independent proof loader",
         "26 honest proofs x 8 builds x 7 layouts (thorough; the 3 native builds + blake2s_160/stone6 in quick): accept iff matching, hashes equal by-address Pedersen chains, serde round trip stable",
         "only the 26 honest proofs available offline represent 'every Stone proof'"),
 "C04": ("exploration", "exhaustive enumeration of tree shapes, friendly-layer boundaries and query subsets with all single-position corruptions against a reference Merkle tree",
         "all heights <= 3 (quick) / <= 4 with all 65535 subsets (thorough), every friendly/masked boundary, 4 hash variants; complete and binding on every case",
         "collision resistance of Poseidon / masked Keccak / Blake2s on the explored leaves"),
 "C05": ("exploration", "exhaustive enumeration of table shapes (columns, heights, boundaries, query subsets) with every single-cell corruption against a reference table builder",
         "every cell of every queried row, every transposition, every length mismatch, for 4 hash variants",
         "collision resistance of the row / node hashes"),
 "C06": ("exploration", "exhaustive enumeration of FRI configurations and query sets; honest instances from an independent coefficient-space FRI prover run through the real fri_commit / fri_verify; fold identity settled by a degree argument",
         "all step lists within the bound x polynomials x seeds x query sets accepted; fri_formula equals polynomial folding for every challenge and point",
         "domains <= 2^10; Felt arithmetic shared with the reference prover"),
 "C07": ("exploration", "exhaustive single-deviation sweep over honest FRI instances plus an exhaustive per-index acceptance census for over-degree inputs",
         "every corruption of every honest instance rejected; for degree >= bound the accepted index set equals the model's exactly, pairs are judged independently",
         "the exponential-decay clause is decided as per-query fraction x independence, not as a probability over transcripts"),
 "C08": ("model_checking", "explicit-state BFS over transcript operation histories on the real Transcript against a reference sponge (second engine: stateright), plus conformance of verifier-derived challenges with the prover's logged transcripts",
         "all histories to depth 5 (quick) / 7 (thorough): conformance, injectivity of state and challenges; every commit-phase message position perturbed; every V->P line of the shipped proofs reproduced",
         "Poseidon shared by model and implementation; collision-freeness observed on the explored set"),
 "C09": ("exploration", "exhaustive enumeration of difficulties 0..=128 x digest menu x nonce ranges against a bit-level oracle; all 256 difficulties for validation",
         "verify_pow agrees with the leading-zero-bit oracle on every triple, in both directions, for both hash families",
         "Keccak-256 / Blake2s-256 primitives trusted"),
 "C10": ("exploration", "complete enumeration of the (domain exponent 1..=64 x count x transcript state) grid against a big-integer model",
         "range, strict monotonicity, count bound, determinism, model equality; index -> point map on all single-bit indices and complements; recorded proofs' query logs",
         "Poseidon trusted"),
 "C11": ("exploration", "deviation-bounded sweep (0, 1, 2 deviations incl. consistent re-declarations modulo p) around valid configurations against an integer predicate; every deviation also as a history of length two (accepted base, then the case, same thread)",
         "StarkConfig::validate accepts exactly what the integer predicate accepts on every explored configuration",
         "surplus trailing vector elements are unjudged (the property does not speak about them)"),
 "C12": ("exploration", "complete enumeration of the finite space (all 18721 (t,c) with t+c<=192) against big-integer order checks, on the std and the no_std build of the crates",
         "every pair: orders exactly 2^(t+c) and 2^t, trace generator = eval generator^(2^c), sizes are the integer powers",
         "num-bigint modpow trusted"),
 "C13": ("exploration", "exhaustive single-deviation sweep over public inputs with pairwise-distinctness of digests over the whole explored set",
         "every field / cell edit, insertion, deletion, transposition gives a different transcript seed; equal inputs equal seeds; seeds reproduce the prover's first challenges",
         "Pedersen / Poseidon collision resistance on the explored set"),
 "C14": ("exploration", "deviation-bounded sweep per layout against an integer / address-based oracle",
         "validation verdicts and returned hashes agree with the by-address oracle on every explored public input",
         "addresses below 2^64 (modular and integer subtraction coincide)"),
 "C15": ("exploration", "exhaustive enumeration of (n_bits, spacing) with a degree argument (more points than the degree) and enumeration of small public memories against naive products",
         "diluted product equals the defining recurrence as a polynomial identity for the production instance; public-memory ratio equals the naive product",
         "Felt arithmetic shared by the recurrence"),
 "C16": ("exploration", "exhaustive enumeration of coefficient positions x layouts x builtin masks; linearity / non-vanishing at seed-derived points",
         "every coefficient position contributes a non-zero term, evaluators are linear, no two DEEP terms share a (column, offset)",
         "Schwartz-Zippel at two random points"),
 "C17": ("exploration", "deviation-bounded sweep of numeric fields with extreme values, each case in a CPU/RSS-limited subprocess; three subjects: StarkProof::verify, public-input validation + hashes called directly, the proof file through parser + conversion",
         "no numeric field makes verification cost grow with the field's value",
         "thresholds are 50x the honest cost; only value-proportional work trips them"),
 "C18": ("exploration", "deviation-bounded structural sweep (vectors truncated / emptied / shifted, numbers extreme) under catch_unwind",
         "verification, config validation and public-input validation return; panics are keyed by site",
         "1 deviation (pairs for vector + governing count in thorough)"),
 "C19": ("exploration", "exhaustive single-edit sweep over proof files against an independent loader",
         "parser + CLI conversion produce exactly the file's values or an error on every edited file",
         "the independent loader is itself cross-checked byte-for-byte against proof_hex"),
}

BUILT = os.environ.get("VERIF_BUILT", "").split(",") if os.environ.get("VERIF_BUILT") else None

def main():
    props = [json.loads(l) for l in open(os.path.join(ROOT, "properties.jsonl"))]
    built = BUILT
    if built is None:
        src = open(os.path.join(ROOT, "harness/swv/src/props/mod.rs")).read()
        built = [p["id"] for p in props if f'"{p["id"]}" => Some(' in src]
    checks = []
    for pid in built:
        cat, tech, text, note = CHECKS[pid]
        checks.append({
            "property_id": pid,
            "quick_cmd": f"./check {pid} --tier quick",
            "thorough_cmd": f"./check {pid} --tier thorough",
            "evidence_file": f"evidence/{pid}.json",
            "replay_cmd_template": f"./check {pid} --replay {{path}}",
            "engine": "swv",
            "level_claimed": {"category": cat, "text": text, "design_ref": f"DESIGN.md section 3 / {pid}"},
            "level_note": note,
            "technique": tech,
        })
    m = {
        "version": 1,
        "setup_cmd": "./tools/setup.sh",
        "hooks": {
            "guard": "none",
            "enable": "no hooks: every observation point is a public function or a public field (DESIGN.md section 5); checks build /repo's working tree as it is",
            "baseline_off_cmd": "cd /repo && cargo test --workspace --no-fail-fast --offline",
            "source_commits": [],
            "add_only": True,
        },
        "engines": [{
            "name": "swv", "path": "harness/swv", "serves_properties": built,
            "kind_free_text": "Rust harness linking the real swiftness crates (8 feature builds): choice-point DFS explorer, explicit-state BFS (+ stateright), deviation sweeps over serde trees, reference models (sponge, Merkle, FRI prover, config predicate, Stone file loader); driver ./check merges per-build partial reports, applies known_findings.jsonl",
        }],
        "checks": checks,
        "not_applicable": [{"property_id": p["id"], "reason": "check not built yet in this round (planned in DESIGN.md section 3); not claimed"} for p in props if p["id"] not in built],
        "notes": "Exit codes of ./check: 0 held (known findings printed), 1 unlisted violation (VIOLATION line), 2 machinery error. Fixes to /repo are recorded as 'fixed' lines in known_findings.jsonl.",
    }
    json.dump(m, open(os.path.join(ROOT, "MANIFEST.json"), "w"), indent=1)
    print("MANIFEST.json:", len(checks), "checks;", len(m["not_applicable"]), "not applicable")

if __name__ == "__main__":
    main()
