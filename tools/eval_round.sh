#!/bin/bash
# eval_round.sh <worktree-id> <checks...> : evaluate SEEDED/{1,2,3}/patch.diff of a round-2 agent
ID=$1; shift  # e.g. C02r3
for k in 1 2 3; do
  P=/tmp/wt/$ID/SEEDED/$k/patch.diff
  [ -f $P ] || { echo "$ID/$k: no patch"; continue; }
  python3 /verif/tools/try_seeded.py $P ${NB:+--no-baseline} "$@" 2>&1 | tail -1 | python3 -c "
import json,sys
try:
    d=json.loads(sys.stdin.read()); print('$ID/$k', d.get('baseline'), {k:(v['exit'],v['violations'],v['keys'][:2],v['machinery'][:1]) for k,v in d['results'].items()})
except Exception as e: print('$ID/$k ERR',e)"
done
