#!/bin/bash
# confirm_scratch.sh <ID e.g. C19r4> <k> <round tag> <shell command run from the worktree root>
# For demonstrations that need their own scratch crate (parser / cli are outside the workspace): runs the
# given command with and without the seeded change in the agent's worktree and records the result lines.
ID=$1; k=$2; R=$3; shift 3; CMD="$*"
WT=/tmp/wt/$ID; OUT=/verif/seeded/${ID%$R}-$R-$k
cd $WT; git checkout -q -- crates cli proof_parser 2>/dev/null
git apply SEEDED/$k/patch.diff || { echo "$ID/$k patch does not apply"; exit 1; }
W=$(bash -c "$CMD" 2>&1 | grep -E "^test result|^error" | tr '\n' ' ')
git apply -R SEEDED/$k/patch.diff
WO=$(bash -c "$CMD" 2>&1 | grep -E "^test result|^error" | tr '\n' ' ')
ok=no; echo "$W" | grep -q FAILED && ! echo "$WO" | grep -q "FAILED\|error" && echo "$WO" | grep -q "ok\." && ok=yes
echo "$ID/$k confirmed=$ok | with: $W | without: $WO"
if [ $ok = yes ]; then
  mkdir -p $OUT; printf "command (from the worktree root): %s\n### WITH the seeded change\n%s\n### WITHOUT the seeded change\n%s\n" "$CMD" "$W" "$WO" > $OUT/confirm.log
fi
