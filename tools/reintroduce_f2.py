p='crates/stark/src/oods.rs'; s=open(p).read()
a=s.index("    ensure!(\n        oods.len() == Layout::MASK_SIZE")
b=s.index(");", s.index("actual: oods.len()"))+2
s=s[:a]+s[b:]
open(p,'w').write(s)
