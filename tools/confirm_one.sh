#!/bin/bash
# confirm_one.sh <ID e.g. C06r3> <k> <round tag e.g. r3> <crate dir e.g. crates/fri> <cargo test args...>
# Copies SEEDED/<k>/demo/* (except README.md) into <crate dir>/tests in the agent's scratch worktree, runs
# `cargo test <args>` with and without the seeded change; keeps patch + demo + log in /verif/seeded when it
# fails with the change and passes without it.
ID=$1; k=$2; R=$3; cdir=$4; shift 4
WT=/tmp/wt/$ID; d=$WT/SEEDED/$k
OUT=/verif/seeded/${ID%$R}-$R-$k
cd $WT; git checkout -q -- crates cli proof_parser 2>/dev/null; git clean -fdq crates 2>/dev/null
git apply SEEDED/$k/patch.diff || { echo "$ID/$k patch does not apply"; exit 1; }
mkdir -p $cdir/tests; for f in $d/demo/*; do [ "$(basename $f)" = README.md ] || cp -r $f $cdir/tests/; done
W=$(cargo test "$@" 2>&1 | grep -E "^test result|^error" | tr '\n' ' ')
git apply -R SEEDED/$k/patch.diff
WO=$(cargo test "$@" 2>&1 | grep -E "^test result|^error" | tr '\n' ' ')
rm -rf $cdir/tests; git checkout -q -- crates 2>/dev/null; git clean -fdq crates 2>/dev/null
ok=no; echo "$W" | grep -q FAILED && ! echo "$WO" | grep -q "FAILED\|error" && echo "$WO" | grep -q "ok\." && ok=yes
echo "$ID/$k confirmed=$ok | with: $W | without: $WO"
if [ $ok = yes ]; then
  mkdir -p $OUT/demo; cp SEEDED/$k/patch.diff $OUT/; cp SEEDED/$k/notes.md $OUT/ 2>/dev/null; cp -r $d/demo/* $OUT/demo/ 2>/dev/null
  printf "command: cargo test %s\n### WITH the seeded change\n%s\n### WITHOUT the seeded change\n%s\n" "$*" "$W" "$WO" > $OUT/confirm.log
fi
