//! C01 - no proof is accepted for a trace that violates the AIR.
//! Explicit-state exploration of the proof protocol as a game: the verifier is the fixed
//! player, the prover an environment with a finite menu of moves per round.  The harness
//! contains a real prover for a real layout that commits to ARBITRARY columns; the
//! committed trace is random, so it violates the AIR.  Invariant at every terminal state:
//! `StarkProof::verify` does not return Ok.
use crate::kit::{b2f, build_name, fhex, fu, panics::{self, verdict}, report::Report, Ctx, HashKind, SplitMix};
use crate::props::c16::{probe_mask, MaskEntry};
use crate::props::c18::skeleton;
use crate::props::common::{own_security, proof_to_value, verify};
use crate::refm::{fri::{domain, horner}, merkle::{Table, Variant}, sponge::Sponge, zint};
use rayon::prelude::*;
use serde_json::{json, Value};
use starknet_crypto::Felt;
use std::collections::{BTreeSet, HashMap};
use swiftness_air::{layout::LayoutTrait, public_memory::PublicInput, trace};
use swiftness_commitment::{table::{decommit::table_decommit, types::{Decommitment as TableDecommitment, Witness as TableWitness}}, vector::types::Witness as VecWitness};
use swiftness_fri::types::{LayerWitness, UnsentCommitment as FriUnsent, Witness as FriWitness};
use swiftness_stark::{config::StarkConfig, types::{StarkProof, StarkUnsentCommitment, StarkWitness}};
use swiftness_transcript::transcript::Transcript;

type L = swiftness_air::layout::recursive::Layout;
const LAYOUT: &str = "recursive";
const N1: usize = 7;
const N2: usize = 3;
const POW_BITS: u8 = 20;

// ------------------------------------------------------------------ moves
pub const MENU: [&[&str]; 6] = [
    &["honest-config", "fri-input-size-above-domain (degree test vacuous)", "blow-up-exponent-0 (degree test vacuous)", "one-query"],
    &["low-degree-random-columns", "first-trace-not-low-degree", "composition-table-with-a-third-column (declared as 3 columns)"],
    &["true-values", "solved-composition-pair", "appended-solved-pair", "prepended-junk", "zero-mask+solved-pair", "one-value-short", "solved-pair-after-65536-padding"],
    &["fri-of-deep-function", "fri-of-unrelated-poly+adaptive-leaves", "fri-of-unrelated-poly"],
    &["ground-nonce", "nonce-0"],
    &["honest-openings", "forged-inner-fri-path", "forged-trace-path", "adaptive-composition-openings", "adaptive-original-trace-openings", "adaptive-interaction-trace-openings"],
];
pub type Moves = [usize; 6];
pub fn n_dishonest(m: &Moves) -> usize {
    m.iter().filter(|x| **x != 0).count()
}
pub fn describe(m: &Moves) -> Vec<String> {
    m.iter().enumerate().map(|(r, c)| MENU[r][*c].to_string()).collect()
}

// ------------------------------------------------------------------ polynomial helpers
fn eval_all(coeffs: &[Felt], points: &[Felt]) -> Vec<Felt> {
    points.par_iter().map(|x| horner(coeffs, x)).collect()
}
/// inverse DFT on the bit-reversed domain: values v_i at x_i = w^bitrev(i) -> coefficients
fn interpolate(values: &[Felt]) -> Vec<Felt> {
    let n = values.len();
    let log_n = n.trailing_zeros();
    let dom = domain(log_n);
    let inv: Vec<Felt> = dom.iter().map(|x| x.inverse().unwrap()).collect();
    let n_inv = Felt::from(n as u64).inverse().unwrap();
    (0..n)
        .into_par_iter()
        .map(|k| {
            // P_k = 1/n * sum_i v_i * x_i^{-k}
            let mut acc = Felt::ZERO;
            for i in 0..n {
                acc += values[i] * inv[i].pow(k as u128);
            }
            acc * n_inv
        })
        .collect()
}
/// matrix M[j][i] = gamma_i^{-j} / m for the bit-reversed subgroup of order m = 2^log_m
fn inv_dft_matrix(log_m: u32) -> std::sync::Arc<Vec<Vec<Felt>>> {
    use std::sync::{Mutex, OnceLock};
    static CACHE: OnceLock<Mutex<HashMap<u32, std::sync::Arc<Vec<Vec<Felt>>>>>> = OnceLock::new();
    let mut g = CACHE.get_or_init(|| Mutex::new(HashMap::new())).lock().unwrap();
    g.entry(log_m)
        .or_insert_with(|| {
            let m = 1usize << log_m;
            let gam = domain(log_m);
            let m_inv = Felt::from(m as u64).inverse().unwrap();
            let ginv: Vec<Felt> = gam.iter().map(|x| x.inverse().unwrap()).collect();
            std::sync::Arc::new((0..m).map(|j| (0..m).map(|i| ginv[i].pow(j as u128) * m_inv).collect()).collect())
        })
        .clone()
}
/// Fold one coset in evaluation space: the values at x0 * gamma_i determine the polynomial
/// Q(x) = sum_j q_j x^j of degree < m with q_j = P_j(y); the folded value is m * sum_j b^j q_j.
fn coset_fold(values: &[Felt], x0_inv: &Felt, b: &Felt) -> Felt {
    let m = values.len();
    let mat = inv_dft_matrix(m.trailing_zeros());
    let mut folded = Felt::ZERO;
    let mut bj = Felt::ONE;
    let mut x0j = Felt::ONE;
    for row in mat.iter() {
        let mut acc = Felt::ZERO;
        for i in 0..m {
            acc += values[i] * row[i];
        }
        folded += bj * acc * x0j;
        bj *= *b;
        x0j *= *x0_inv;
    }
    Felt::from(m as u64) * folded
}

// ------------------------------------------------------------------ evaluation-space FRI prover
struct EFri {
    steps: Vec<u32>,
    /// real log size of layer 0
    n_real: u32,
    layers: Vec<(Vec<Felt>, Table, u32)>, // (real evaluations, table padded to the declared height, step)
    eval_points: Vec<Felt>,
    last: Vec<Felt>,
}
impl EFri {
    /// `declared` = fri.log_input_size the configuration declares (>= n_real): tables are
    /// padded with zero rows up to the declared heights.
    fn commit(values: Vec<Felt>, steps: &[u32], last_log: u32, declared: u32, nf: u64, variant: Variant, sponge: &mut Sponge) -> EFri {
        let n_real = values.len().trailing_zeros();
        let mut layers = Vec::new();
        let mut eval_points = Vec::new();
        let mut cur = values;
        let mut log_real = n_real;
        let mut log_decl = declared;
        for &s in &steps[1..] {
            let cols = 1usize << s;
            let mut rows: Vec<Vec<Felt>> = cur.chunks(cols).map(|c| c.to_vec()).collect();
            let want_rows = 1usize << (log_decl - s);
            while rows.len() < want_rows {
                rows.push(vec![Felt::ZERO; cols]);
            }
            let table = Table::build(variant, rows, nf);
            sponge.absorb(&[table.root()]);
            let b = sponge.squeeze();
            eval_points.push(b);
            let dom = domain(log_real);
            let next: Vec<Felt> = (0..cur.len() / cols)
                .into_par_iter()
                .map(|r| coset_fold(&cur[r * cols..(r + 1) * cols], &dom[r * cols].inverse().unwrap(), &b))
                .collect();
            layers.push((cur, table, s));
            cur = next;
            log_real -= s;
            log_decl -= s;
        }
        // last layer: the polynomial through the real last-layer values, cut / padded to 2^last_log coefficients
        let mut last = interpolate(&cur);
        last.resize(1usize << last_log, Felt::ZERO);
        sponge.absorb(&last);
        EFri { steps: steps.to_vec(), n_real, layers, eval_points, last }
    }
    fn roots(&self) -> Vec<Felt> {
        self.layers.iter().map(|l| l.1.root()).collect()
    }
    /// sibling leaves and authentication paths per layer for the given layer-0 queries
    fn open(&self, queries: &[usize]) -> Vec<(Vec<Felt>, Vec<Felt>)> {
        let mut cur: Vec<usize> = queries.to_vec();
        let mut out = Vec::new();
        for (vals, table, s) in &self.layers {
            let cols = 1usize << s;
            let set: BTreeSet<usize> = cur.iter().cloned().collect();
            let rows: Vec<usize> = cur.iter().map(|q| q / cols).collect::<BTreeSet<_>>().into_iter().collect();
            let mut leaves = Vec::new();
            for &r in &rows {
                for j in 0..cols {
                    if !set.contains(&(r * cols + j)) {
                        leaves.push(vals[r * cols + j]);
                    }
                }
            }
            let (_, auth) = table.open(&rows);
            out.push((leaves, auth));
            cur = rows;
        }
        out
    }
}

// ------------------------------------------------------------------ the prover
struct Setup {
    t: u32,
    c: u32,
    pi_value: Value,
    mask: Vec<MaskEntry>,
    cols1: Vec<Vec<Felt>>, // coefficient vectors
    cols2: Vec<Vec<Felt>>,
    comp: Vec<Vec<Felt>>,
    variant: Variant,
    nf: u64,
    steps: Vec<u32>,
    last_log: u32,
}

struct Committed {
    points: Vec<Felt>, // evaluation-domain points in query order
    rows1: Vec<Vec<Felt>>,
    rows2: Vec<Vec<Felt>>,
    rows3: Vec<Vec<Felt>>,
    t1: Table,
    t2: Table,
    t3: Table,
}

fn commit_tables(s: &Setup, c: u32, kind: usize, rng: &mut SplitMix) -> Committed {
    let (junk_first, wide) = (kind == 1, kind == 2);
    let n = s.t + c;
    let three = Felt::THREE;
    let points: Vec<Felt> = domain(n).iter().map(|x| three * *x).collect();
    let cols_eval = |polys: &Vec<Vec<Felt>>| -> Vec<Vec<Felt>> {
        let evals: Vec<Vec<Felt>> = polys.iter().map(|p| eval_all(p, &points)).collect();
        (0..points.len()).map(|i| evals.iter().map(|e| e[i]).collect()).collect()
    };
    let mut rows1 = cols_eval(&s.cols1);
    if junk_first {
        // a first trace that is not the evaluation of low-degree columns
        for r in rows1.iter_mut() {
            *r = rng.felts(N1);
        }
    }
    let rows2 = cols_eval(&s.cols2);
    let mut rows3 = cols_eval(&s.comp);
    if wide {
        // a third composition column the verifier has no use for
        for r in rows3.iter_mut() {
            r.push(rng.felt());
        }
    }
    let t1 = Table::build(s.variant, rows1.clone(), s.nf);
    let t2 = Table::build(s.variant, rows2.clone(), s.nf);
    let t3 = Table::build(s.variant, rows3.clone(), s.nf);
    Committed { points, rows1, rows2, rows3, t1, t2, t3 }
}

fn make_config(s: &Setup, mv: &Moves) -> (StarkConfig, u32, u32) {
    // returns (config, real blow-up exponent, declared fri log_input_size)
    let (c_real, n_queries) = match mv[0] {
        2 => (0u32, 3u64),
        3 => (s.c, 1),
        _ => (s.c, 3),
    };
    let t = s.t;
    let steps64: Vec<u64> = s.steps.iter().map(|x| *x as u64).collect();
    match mv[0] {
        1 => {
            // FRI input size above the evaluation domain: expected degree = t + c = the whole domain
            let last = s.last_log + c_real;
            let declared = t + 2 * c_real;
            let cfg = crate::props::c11::make(fu(t as u64), fu(c_real as u64), &steps64, fu(last as u64), fu(n_queries), POW_BITS, fu(s.nf), (N1 as u64, N2 as u64), Some(fu(declared as u64)));
            (cfg, c_real, declared)
        }
        _ => {
            let cfg = crate::props::c11::make(fu(t as u64), fu(c_real as u64), &steps64, fu(s.last_log as u64), fu(n_queries), POW_BITS, fu(s.nf), (N1 as u64, N2 as u64), None);
            (cfg, c_real, t + c_real)
        }
    }
}

fn grind(kind: HashKind, digest: &Felt, n_bits: u8) -> u64 {
    let d = digest.to_bytes_be();
    // chunks of 2^15 nonces, each searched in parallel (smallest accepting nonce wins)
    let chunk = 1u64 << 15;
    let mut start = 0u64;
    loop {
        if let Some(n) = (start..start + chunk).into_par_iter().find_first(|nonce| crate::props::c09::ref_leading_zeros(kind, &d, n_bits, *nonce) >= n_bits as u32) {
            return n;
        }
        start += chunk;
        assert!(start < (1 << 36), "no proof-of-work nonce found");
    }
}

pub struct Built {
    pub proof: StarkProof,
    pub trace_violates_air: bool,
    pub self_checks: Vec<String>,
}

#[derive(Default)]
struct Caches {
    com: HashMap<(u32, usize), std::sync::Arc<Committed>>,
    /// (c_real, junk first trace, oods variant) -> everything up to the DEEP function
    oods: HashMap<(u32, usize, usize), std::sync::Arc<OodsStage>>,
    unrelated: HashMap<u32, std::sync::Arc<Vec<Felt>>>,
    /// + (fri of unrelated poly?, fri input size above domain?) -> FRI commit phase
    fri: HashMap<(u32, usize, usize, bool, bool), std::sync::Arc<FriStage>>,
    nonce: HashMap<(u32, usize, usize, bool, bool), u64>,
}
struct OodsStage {
    oods: Vec<Felt>,
    z: Felt,
    g: Felt,
    deep_coeffs: Vec<Felt>,
    deep: Vec<Felt>,
    sponge: Sponge,
    violates: bool,
    checks: Vec<String>,
}
struct FriStage {
    fri: EFri,
    before: (Felt, u64),
    sponge: Sponge,
}

fn oods_stage(s: &Setup, mv: &Moves, com: &Committed, config: &StarkConfig, c_real: u32, ctx: &Ctx) -> OodsStage {
    let mut checks = Vec::new();
    let pi: PublicInput = serde_json::from_value(s.pi_value.clone()).unwrap();
    let n = s.t + c_real;
    let size = 1usize << n;
    // ---- transcript
    let digest = pi.get_hash(config.n_verifier_friendly_commitment_layers);
    let mut sp = Sponge::new(digest);
    let unsent_traces = trace::UnsentCommitment { original: com.t1.root(), interaction: com.t2.root() };
    // interaction elements through the real traces_commit (and cross-checked against the sponge)
    let mut tr = Transcript::new(digest);
    let tc = L::traces_commit(&mut tr, &unsent_traces, config.traces.clone());
    sp.absorb(&[com.t1.root()]);
    for _ in 0..6 {
        sp.squeeze();
    }
    sp.absorb(&[com.t2.root()]);
    if *tr.digest() != sp.digest {
        checks.push("traces_commit transcript differs from the reference sponge".to_string());
    }
    let alpha = sp.squeeze();
    sp.absorb(&[com.t3.root()]);
    let z = sp.squeeze();
    // ---- out-of-domain values
    let g = b2f(&zint::root_of_unity(s.t));
    let all_polys: Vec<&Vec<Felt>> = s.cols1.iter().chain(s.cols2.iter()).collect();
    let mask_true: Vec<Felt> = s
        .mask
        .par_iter()
        .take(L::MASK_SIZE)
        .map(|e| {
            let x = z * g.pow(e.offset.unwrap_or(0) as u128);
            horner(all_polys[e.column], &x)
        })
        .collect();
    let z2 = z * z;
    let comp_true = [horner(&s.comp[0], &z2), horner(&s.comp[1], &z2)];
    let coeffs: Vec<Felt> = {
        let mut v = Vec::with_capacity(L::N_CONSTRAINTS);
        let mut cur = Felt::ONE;
        for _ in 0..L::N_CONSTRAINTS {
            v.push(cur);
            cur *= alpha;
        }
        v
    };
    let trace_size = b2f(&crate::kit::pow2(s.t));
    let comp_of = |mask: &[Felt]| -> Felt {
        L::eval_composition_polynomial(&tc.interaction_elements, &pi, mask, &coeffs, &z, &trace_size, &g).expect("composition evaluator works on the harness' public input")
    };
    let from_trace = comp_of(&mask_true);
    let violates = from_trace != comp_true[0] + z * comp_true[1];
    let solved = |mask: &[Felt]| -> [Felt; 2] {
        let h1 = comp_true[1];
        [comp_of(mask) - z * h1, h1]
    };
    let zero_mask = vec![Felt::ZERO; L::MASK_SIZE];
    let oods: Vec<Felt> = match mv[2] {
        0 => mask_true.iter().cloned().chain(comp_true).collect(),
        1 => mask_true.iter().cloned().chain(solved(&mask_true)).collect(),
        2 => mask_true.iter().cloned().chain(comp_true).chain(solved(&mask_true)).collect(),
        3 => std::iter::once(ctx.rng(0x0103).felt()).chain(mask_true.iter().cloned()).chain(comp_true).collect(),
        4 => zero_mask.iter().cloned().chain(solved(&zero_mask)).collect(),
        // true values, then 65534 junk values, then the solved pair: the length equals the right one modulo 2^16
        6 => mask_true.iter().cloned().chain(comp_true).chain((0..65534u64).map(|i| Felt::from(i + 7))).chain(solved(&mask_true)).collect(),
        _ => mask_true.iter().cloned().chain(std::iter::once(comp_true[0])).collect(),
    };
    sp.absorb(&oods);
    let oods_alpha = sp.squeeze();
    // ---- the function the verifier will feed to FRI: DEEP quotient on the whole domain
    let deep_coeffs: Vec<Felt> = {
        let mut v = Vec::new();
        let mut cur = Felt::ONE;
        for _ in 0..L::MASK_SIZE + L::CONSTRAINT_DEGREE {
            v.push(cur);
            cur *= oods_alpha;
        }
        v
    };
    // the verifier reads positions 0..MASK_SIZE+1 of whatever vector it is given
    let deep: Vec<Felt> = if oods.len() >= L::MASK_SIZE + L::CONSTRAINT_DEGREE {
        (0..size)
            .into_par_iter()
            .map(|i| {
                let mut cv = Vec::with_capacity(N1 + N2 + 2);
                cv.extend_from_slice(&com.rows1[i]);
                cv.extend_from_slice(&com.rows2[i]);
                cv.extend_from_slice(&com.rows3[i][..2]);
                L::eval_oods_polynomial(&pi, &cv, &oods, &deep_coeffs, &com.points[i], &z, &g).expect("deep evaluator")
            })
            .collect()
    } else {
        vec![Felt::ZERO; size]
    };
    OodsStage { oods, z, g, deep_coeffs, deep, sponge: sp, violates, checks }
}

/// Play one complete game with the given move vector and assemble the proof.
fn play(s: &Setup, mv: &Moves, cache: &mut Caches, ctx: &Ctx) -> Built {
    let mut rng = ctx.rng(0x0101);
    let mut checks = Vec::new();
    let (mut config, c_real, fri_declared) = make_config(s, mv);
    let junk = mv[1];
    if mv[1] == 2 {
        config.composition.n_columns = fu(3);
    }
    let com = cache.com.entry((c_real, junk)).or_insert_with(|| std::sync::Arc::new(commit_tables(s, c_real, junk, &mut ctx.rng(0x0104 + c_real as u64 * 2 + junk as u64)))).clone();
    let pi: PublicInput = serde_json::from_value(s.pi_value.clone()).unwrap();
    let n = s.t + c_real;
    let unsent_traces = trace::UnsentCommitment { original: com.t1.root(), interaction: com.t2.root() };
    let okey = (c_real, junk, mv[2]);
    if !cache.oods.contains_key(&okey) {
        let st = oods_stage(s, mv, &com, &config, c_real, ctx);
        cache.oods.insert(okey, std::sync::Arc::new(st));
    }
    let ost = cache.oods.get(&okey).unwrap().clone();
    checks.extend(ost.checks.iter().cloned());
    let (oods, deep, violates) = (ost.oods.clone(), &ost.deep, ost.violates);
    // ---- FRI commit phase
    let unrelated = cache
        .unrelated
        .entry(n)
        .or_insert_with(|| {
            // an unrelated polynomial of degree < 2^t, evaluated on the FRI domain
            let p = ctx.rng(0x0102).felts(1usize << s.t);
            std::sync::Arc::new(eval_all(&p, &domain(n)))
        })
        .clone();
    let fkey = (c_real, junk, mv[2], mv[3] != 0, mv[0] == 1);
    if !cache.fri.contains_key(&fkey) {
        let fri_input: &Vec<Felt> = if mv[3] == 0 { deep } else { &unrelated };
        let last_log_decl: u32 = if mv[0] == 1 { s.last_log + c_real } else { s.last_log };
        let mut sp = ost.sponge.clone();
        let before = (sp.digest, sp.counter);
        let fri = EFri::commit(fri_input.clone(), &s.steps, last_log_decl, fri_declared, s.nf, s.variant, &mut sp);
        cache.fri.insert(fkey, std::sync::Arc::new(FriStage { fri, before, sponge: sp }));
    }
    let fst = cache.fri.get(&fkey).unwrap().clone();
    let fri = &fst.fri;
    let before_fri = fst.before;
    let mut sp = fst.sponge.clone();
    // ---- proof of work
    let (pow_kind, _) = crate::kit::build_hash();
    let nonce = if mv[4] == 0 { *cache.nonce.entry(fkey).or_insert_with(|| grind(pow_kind, &sp.digest, POW_BITS)) } else { 0 };
    sp.absorb(&[Felt::from(nonce)]);
    // ---- queries (sorted, de-duplicated, as the verifier will derive them)
    let nq: u64 = crate::kit::f2b(&config.n_queries).try_into().unwrap_or(3);
    let mut qs: Vec<usize> = (0..nq)
        .map(|_| {
            let r = crate::kit::f2b(&sp.squeeze());
            let low: num_bigint::BigUint = (r % crate::kit::pow2(128)) % crate::kit::pow2(n);
            low.try_into().unwrap()
        })
        .collect();
    qs.sort();
    qs.dedup();
    // ---- decommitment
    let open_tab = |t: &Table| -> (Vec<Felt>, Vec<Felt>) { t.open(&qs) };
    let (mut v1, mut a1) = open_tab(&com.t1);
    let (mut v2, mut a2) = open_tab(&com.t2);
    let (mut v3, mut a3) = open_tab(&com.t3);
    let mut fri_open = fri.open(&qs);
    if mv[3] == 1 && !fri.layers.is_empty() {
        // adaptive layer-0 leaves: the queried values are the verifier's DEEP values (fixed by the trace
        // openings); choose the sibling leaves so that every coset folds onto the committed unrelated
        // polynomial's next layer.  Authentication paths for these leaves cannot exist.
        let s1 = fri.layers[0].2;
        let cols = 1usize << s1;
        let b = fri.eval_points[0];
        let dom = domain(n);
        let set: BTreeSet<usize> = qs.iter().cloned().collect();
        let rows: Vec<usize> = qs.iter().map(|q| q / cols).collect::<BTreeSet<_>>().into_iter().collect();
        let mut leaves = Vec::new();
        for &r in &rows {
            // target: the next-layer value of the unrelated polynomial at row r
            let target = coset_fold(&unrelated[r * cols..(r + 1) * cols], &dom[r * cols].inverse().unwrap(), &b);
            let mut vals: Vec<Felt> = (0..cols).map(|j| if set.contains(&(r * cols + j)) { deep[r * cols + j] } else { unrelated[r * cols + j] }).collect();
            // solve one free sibling (the first non-queried position) linearly
            if let Some(free) = (0..cols).find(|j| !set.contains(&(r * cols + j))) {
                let x0_inv = dom[r * cols].inverse().unwrap();
                let f0 = {
                    vals[free] = Felt::ZERO;
                    coset_fold(&vals, &x0_inv, &b)
                };
                let f1 = {
                    vals[free] = Felt::ONE;
                    coset_fold(&vals, &x0_inv, &b)
                };
                let slope = f1 - f0;
                if slope != Felt::ZERO {
                    vals[free] = (target - f0) * slope.inverse().unwrap();
                }
            }
            for j in 0..cols {
                if !set.contains(&(r * cols + j)) {
                    leaves.push(vals[j]);
                }
            }
        }
        fri_open[0].0 = leaves;
        // junk authentication path of the right length
        fri_open[0].1 = fri_open[0].1.iter().map(|_| rng.felt()).collect();
    }
    if mv[5] == 1 {
        if let Some(lastl) = fri_open.last_mut() {
            if let Some(x) = lastl.1.first_mut() {
                *x += Felt::ONE;
            }
        }
    }
    if mv[5] == 2 {
        if let Some(x) = a1.first_mut() {
            *x += Felt::ONE;
        }
    }
    if mv[5] >= 3 && ost.oods.len() >= L::MASK_SIZE + L::CONSTRAINT_DEGREE && !fri.layers.is_empty() {
        // adaptive openings: after the queries are known, choose one opened cell per query so that
        // the DEEP value the verifier computes equals the value committed in FRI layer 0 (whatever
        // function that is); authentication paths for such cells cannot exist.
        let committed = &fri.layers[0].0;
        for (qi, &q) in qs.iter().enumerate() {
            let mut cv = Vec::with_capacity(N1 + N2 + 2);
            cv.extend_from_slice(&v1[qi * N1..(qi + 1) * N1]);
            cv.extend_from_slice(&v2[qi * N2..(qi + 1) * N2]);
            let w3 = if mv[1] == 2 { 3 } else { 2 }; // cells per composition row as opened
            cv.extend_from_slice(&v3[qi * w3..qi * w3 + 2]);
            let k = match mv[5] {
                3 => N1 + N2,
                4 => 0,
                _ => N1,
            };
            let mut at = |c: Felt| -> Felt {
                cv[k] = c;
                L::eval_oods_polynomial(&pi, &cv, &ost.oods, &ost.deep_coeffs, &com.points[q], &ost.z, &ost.g).expect("deep evaluator")
            };
            let f0 = at(Felt::ZERO);
            let f1 = at(Felt::ONE);
            let slope = f1 - f0;
            if slope == Felt::ZERO || q >= committed.len() {
                continue;
            }
            let c = (committed[q] - f0) * slope.inverse().unwrap();
            match mv[5] {
                3 => v3[qi * w3] = c,
                4 => v1[qi * N1] = c,
                _ => v2[qi * N2] = c,
            }
        }
        let junk = |a: &mut Vec<Felt>, r: &mut SplitMix| {
            for x in a.iter_mut() {
                *x = r.felt();
            }
        };
        match mv[5] {
            3 => junk(&mut a3, &mut rng),
            4 => junk(&mut a1, &mut rng),
            _ => junk(&mut a2, &mut rng),
        }
    }
    let tw = |a: Vec<Felt>| TableWitness { vector: VecWitness { authentications: a } };
    // ---- competence self-checks with the real component functions
    if mv[5] == 0 && mv[1] == 0 {
        let qf: Vec<Felt> = qs.iter().map(|q| fu(*q as u64)).collect();
        let c1 = crate::props::c05::table_commitment(com.t1.root(), fu(N1 as u64), n as u64, s.nf);
        let ok = verdict(|| table_decommit(c1, &qf, TableDecommitment { values: v1.clone() }, tw(a1.clone())));
        if !ok.accepted() && mv[0] != 1 && mv[0] != 2 {
            checks.push(format!("honest trace opening rejected by table_decommit: {}", ok.class()));
        }
    }
    // FRI machinery: with true out-of-domain values the DEEP function is low-degree, so the real
    // fri_commit + fri_verify must accept the harness prover's FRI part on its own
    if mv[1] == 0 && mv[2] == 0 && mv[3] == 0 && mv[5] == 0 && (mv[0] == 0 || mv[0] == 3) {
        let un = FriUnsent { inner_layers: fri.roots(), last_layer_coefficients: fri.last.clone() };
        let cfg = config.fri.clone();
        let (d0, c0) = before_fri;
        let qf: Vec<Felt> = qs.iter().map(|q| fu(*q as u64)).collect();
        let dec = swiftness_fri::types::Decommitment { values: qs.iter().map(|q| deep[*q]).collect(), points: qs.iter().map(|q| com.points[*q]).collect() };
        let wit = FriWitness { layers: fri_open.iter().map(|(l, a)| LayerWitness { leaves: l.clone(), table_witness: tw(a.clone()) }).collect() };
        let eps = fri.eval_points.clone();
        let r = panics::catch(move || {
            let mut t = Transcript::new_with_counter(d0, fu(c0));
            let c = swiftness_fri::fri::fri_commit(&mut t, un, cfg);
            let same_points = c.eval_points == eps;
            (same_points, swiftness_fri::fri::fri_verify(&qf, c, dec, wit).is_ok())
        });
        match r {
            Ok((true, true)) => {}
            other => checks.push(format!("harness FRI prover is not accepted by the real fri_commit/fri_verify on a low-degree DEEP function: {:?}", other.map_err(|p| p.site()))),
        }
    }
    let proof = StarkProof {
        config,
        public_input: pi,
        unsent_commitment: StarkUnsentCommitment {
            traces: unsent_traces,
            composition: com.t3.root(),
            oods_values: oods,
            fri: FriUnsent { inner_layers: fri.roots(), last_layer_coefficients: fri.last.clone() },
            proof_of_work: swiftness_pow::pow::UnsentCommitment { nonce },
        },
        witness: StarkWitness {
            traces_decommitment: trace::Decommitment { original: TableDecommitment { values: v1 }, interaction: TableDecommitment { values: v2 } },
            traces_witness: trace::Witness { original: tw(a1), interaction: tw(a2) },
            composition_decommitment: TableDecommitment { values: v3 },
            composition_witness: tw(a3),
            fri_witness: FriWitness { layers: fri_open.into_iter().map(|(l, a)| LayerWitness { leaves: l, table_witness: tw(a) }).collect() },
        },
    };
    let _ = (fri.n_real, &fri.steps);
    Built { proof, trace_violates_air: violates, self_checks: checks }
}

fn setup(ctx: &Ctx, c: u32) -> Result<Setup, String> {
    // smallest trace exponent at which the layout's composition evaluator works
    let mut t = 0;
    for cand in 4..=16u64 {
        if let Some(p) = skeleton(LAYOUT, cand, 15) {
            let pi = &p.public_input;
            let mut tr = Transcript::new(Felt::ONE);
            let tc = L::traces_commit(&mut tr, &p.unsent_commitment.traces, p.config.traces.clone());
            let ok = panics::catch(|| {
                L::eval_composition_polynomial(&tc.interaction_elements, pi, &vec![Felt::ONE; L::MASK_SIZE], &vec![Felt::ONE; L::N_CONSTRAINTS], &Felt::TWO,
                    &b2f(&crate::kit::pow2(cand as u32)), &b2f(&zint::root_of_unity(cand as u32)))
            });
            if matches!(ok, Ok(Ok(_))) {
                t = cand as u32;
                break;
            }
        }
    }
    if t == 0 {
        return Err("no trace exponent <= 16 at which the composition evaluator works".into());
    }
    let sk = skeleton(LAYOUT, t as u64, 15).ok_or("no skeleton")?;
    let pi_value = serde_json::to_value(&sk.public_input).map_err(|e| e.to_string())?;
    let mut rng = ctx.rng(0x0100);
    let (mask, bads) = probe_mask::<L>(&sk.public_input, N1 + N2 + 2, t, &mut rng)?;
    if !bads.is_empty() {
        return Err(format!("mask probing failed: {:?}", &bads[..bads.len().min(3)]));
    }
    let deg = 1usize << t;
    let cols1 = (0..N1).map(|_| rng.felts(deg)).collect();
    let cols2 = (0..N2).map(|_| rng.felts(deg)).collect();
    let comp = (0..2).map(|_| rng.felts(deg)).collect();
    // FRI steps: t = sum(steps) + last
    let mut steps = vec![0u32];
    let mut left = t;
    while left > 2 {
        let s = left.min(4).min(left - 2).max(1);
        steps.push(s);
        left -= s;
    }
    Ok(Setup { t, c, pi_value, mask, cols1, cols2, comp, variant: Variant::of_build(), nf: 3, steps, last_log: left })
}

/// Proofs that cannot be obtained by editing an honest proof (their commitments enter the transcript): built by the
/// game prover for C18, which only asks that verifying them does not panic.
pub fn prover_built_proofs(ctx: &Ctx) -> Vec<(String, StarkProof)> {
    let s = match setup(ctx, 1) {
        Ok(s) => s,
        Err(_) => return vec![],
    };
    let mut cache = Caches::default();
    let mut out = Vec::new();
    for mv in [[0usize, 2, 1, 0, 0, 0], [0, 2, 0, 0, 0, 0], [0, 0, 1, 0, 0, 0], [0, 1, 1, 0, 0, 0], [0, 2, 2, 0, 0, 0], [0, 2, 1, 2, 0, 0]] {
        let b = play(&s, &mv, &mut cache, ctx);
        out.push((describe(&mv).join(" + "), b.proof));
    }
    out
}

pub fn terminal_states(max_dishonest: usize) -> (Vec<Moves>, u64, u64) {
    // BFS over rounds: a state is a prefix of the move vector; prefixes whose dishonest
    // count already exceeds the bound are not expanded.
    let mut frontier: Vec<Vec<usize>> = vec![vec![]];
    let mut states = 1u64;
    let mut transitions = 0u64;
    for menu in MENU.iter() {
        let mut next = Vec::new();
        for p in &frontier {
            for c in 0..menu.len() {
                transitions += 1;
                let mut q = p.clone();
                q.push(c);
                if q.iter().filter(|x| **x != 0).count() <= max_dishonest {
                    states += 1;
                    next.push(q);
                }
            }
        }
        frontier = next;
    }
    (frontier.into_iter().map(|v| [v[0], v[1], v[2], v[3], v[4], v[5]]).collect(), states, transitions)
}

pub fn run(ctx: &Ctx) -> Report {
    let mut rep = Report::new(
        "C01",
        "model_checking",
        "the STARK protocol as a game against a bounded adversary: 6 rounds (configuration, trace / composition commitments, \
         out-of-domain values, FRI layers, proof of work, decommitment), each with a finite move menu (choice 0 = what a prover with \
         a valid trace would do); all move vectors with at most 2 dishonest moves plus six named three-move attacks (quick) / every move vector (thorough); the committed trace is \
         random (it violates the AIR - checked numerically in every game); every terminal state assembles a real proof with an \
         in-harness prover for the real `recursive` layout and runs the real StarkProof::verify; invariant: not Ok. States = move \
         prefixes, transitions = moves; non-trivial terminal = at least one dishonest move",
    );
    rep.trust("Poseidon / Pedersen / Keccak / Blake2s primitives; the harness prover uses the verifier's own eval_composition_polynomial / eval_oods_polynomial pointwise (mask structure recovered by probing, see C16)");
    rep.assume("bounded adversary: finite move menus, one trace size, collision resistance, FRI soundness error not modelled");
    let quick = ctx.quick();
    // quick: blow-up 2, <= 2 dishonest moves; thorough: blow-up 2 and 4, every move vector (all 864)
    let plans: Vec<(u32, usize)> = if quick { vec![(1, 2)] } else { vec![(1, 6), (2, 3)] };
    let mut accepted_any = false;
    let mut n_terms = 0usize;
    let mut last_setup: Option<(u32, Vec<u32>)> = None;
    for (c, bound) in plans {
        let setup = match setup(ctx, c) {
            Ok(s) => s,
            Err(e) => {
                rep.machinery(&format!("C01 setup: {}", e));
                return rep;
            }
        };
        let (mut terms, states, transitions) = terminal_states(bound);
        if quick {
            // the three-move attacks that need an adaptive opening on top of a solved pair and a FRI of
            // an unrelated polynomial (they are inside the thorough tier's complete enumeration)
            for d in 3..=5usize {
                terms.push([0, 0, 1, 2, 0, d]);
                terms.push([0, 0, 4, 2, 0, d]);
            }
        }
        rep.states += states;
        rep.transitions += transitions;
        rep.max_depth = 6;
        n_terms += terms.len();
        let mut cache = Caches::default();
        for mv in &terms {
            let built = play(&setup, mv, &mut cache, ctx);
            for ch in &built.self_checks {
                rep.machinery(&format!("C01 self-check ({:?}): {}", describe(mv), ch));
            }
            if !built.trace_violates_air {
                rep.machinery("C01: the random trace satisfies the OODS consistency equation (re-draw the seed)");
            }
            if *mv == [0, 0, 1, 0, 0, 0] {
                // transcript / OODS / PoW machinery: with a solved composition pair the real commit phase must succeed
                if let Err(e) = crate::props::common::commit_phase::<L>(&built.proof) {
                    rep.machinery(&format!("C01 self-check: the commit phase rejects the solved-pair proof ({}), so the harness prover's transcript / OODS / PoW handling is wrong", e));
                } else {
                    rep.eval("self-check:commit-phase-accepts-solved-pair");
                }
            }
            let v = verify(&built.proof, LAYOUT);
            let class = format!("{}:{}", n_dishonest(mv), v.class());
            rep.eval(&class);
            if n_dishonest(mv) > 0 {
                rep.nontrivial_case(&format!("c{}:{:?}", c, mv));
            }
            rep.traces_validated += 1;
            rep.sample(&v.class(), json!({"blowup_log": c, "moves": describe(mv), "verify": v.class(), "security_bits": fhex(&own_security(&built.proof))}));
            if v.accepted() {
                accepted_any = true;
                let dishonest: Vec<String> = mv.iter().enumerate().filter(|(_, x)| **x != 0).map(|(r, x)| MENU[r][*x].split(' ').next().unwrap().to_string()).collect();
                rep.violation(&format!("forged-proof-accepted:{}", dishonest.join("+")),
                    &format!("a proof for a random trace (violating the AIR) is ACCEPTED with prover moves {:?} (blow-up 2^{})", describe(mv), c),
                    json!({"kind": "game", "blowup_log": c, "moves": mv.to_vec(), "proof": proof_to_value(&built.proof)}));
            }
        }
        last_setup = Some((setup.t, setup.steps.clone()));
    }
    // the dynamic layout's self-declared column / offset parameters (see c01dyn.rs)
    crate::props::c01dyn::sweep(ctx, &mut rep);
    let (setup_t, setup_steps) = last_setup.unwrap_or((0, vec![]));
    rep.extra.insert("trace_log_size".into(), json!(setup_t));
    rep.extra.insert("fri_steps".into(), json!(setup_steps));
    rep.extra.insert("terminal_states".into(), json!(n_terms));
    rep.extra.insert("any_accepted".into(), json!(accepted_any));
    rep.bound_completed = format!("{}; {} terminal states; layout {} at trace 2^{}; build {}", if quick { "<= 2 dishonest moves + 6 named three-move attacks, blow-up 2" } else { "every move vector at blow-up 2, <= 3 dishonest moves at blow-up 4" }, n_terms, LAYOUT, setup_t, build_name());
    rep
}

pub fn replay(ctx: &Ctx, case: &Value) -> super::ReplayResult {
    if case["kind"] == "dynparams" {
        return crate::props::c01dyn::replay(ctx, case);
    }
    // replay the materialised proof if present (it can also be fed to the CLI's verifier), else replay the moves
    if let Some(p) = case.get("proof").and_then(crate::props::common::proof_from_value) {
        let v = verify(&p, LAYOUT);
        return Ok((v.accepted(), format!("materialised proof -> {}", v.class())));
    }
    let mvv: Vec<usize> = case["moves"].as_array().ok_or("moves")?.iter().map(|x| x.as_u64().unwrap() as usize).collect();
    let mv: Moves = [mvv[0], mvv[1], mvv[2], mvv[3], mvv[4], mvv[5]];
    let s = setup(ctx, case["blowup_log"].as_u64().unwrap_or(1) as u32)?;
    let mut cache = Caches::default();
    let b = play(&s, &mv, &mut cache, ctx);
    let v = verify(&b.proof, LAYOUT);
    Ok((v.accepted(), format!("{:?} -> {}", describe(&mv), v.class())))
}
