//! C08, proof-level part: prover-log conformance and commit-phase message ordering on
//! the real `stark_commit` / `traces_commit` / `fri_commit`.
use crate::kit::{f2b, fhex, panics, report::Report, Ctx};
use crate::props::common::{clone_proof, commit_phase, Commit};
use crate::refm::stonefile::{self, ProofFile};
use crate::with_layout;
use num_traits::ToPrimitive;
use rayon::prelude::*;
use serde_json::{json, Value};
use starknet_crypto::Felt;
use swiftness_air::layout::{GenericLayoutTrait, LayoutTrait};
use swiftness_fri::fri::fri_commit;
use swiftness_stark::types::StarkProof;
use swiftness_transcript::transcript::Transcript;

/// Positions of prover messages in the commit phase, in protocol order.
#[derive(Clone, Debug, PartialEq)]
pub enum Msg {
    Trace0,
    Trace1,
    Composition,
    Oods(usize),
    FriLayer(usize),
    LastCoeff(usize),
    Nonce,
}
impl Msg {
    fn class(&self) -> &'static str {
        match self {
            Msg::Trace0 => "trace-original",
            Msg::Trace1 => "trace-interaction",
            Msg::Composition => "composition",
            Msg::Oods(_) => "oods-value",
            Msg::FriLayer(_) => "fri-layer-commitment",
            Msg::LastCoeff(_) => "last-layer-coefficient",
            Msg::Nonce => "nonce",
        }
    }
    fn to_json(&self) -> Value {
        match self {
            Msg::Oods(i) => json!({"m": "oods", "i": i}),
            Msg::FriLayer(i) => json!({"m": "fri", "i": i}),
            Msg::LastCoeff(i) => json!({"m": "last", "i": i}),
            o => json!({"m": o.class()}),
        }
    }
    fn from_json(v: &Value) -> Option<Msg> {
        let i = v.get("i").and_then(|x| x.as_u64()).map(|x| x as usize);
        Some(match v.get("m")?.as_str()? {
            "oods" => Msg::Oods(i?),
            "fri" => Msg::FriLayer(i?),
            "last" => Msg::LastCoeff(i?),
            "trace-original" => Msg::Trace0,
            "trace-interaction" => Msg::Trace1,
            "composition" => Msg::Composition,
            "nonce" => Msg::Nonce,
            _ => return None,
        })
    }
    fn apply(&self, p: &mut StarkProof) {
        let u = &mut p.unsent_commitment;
        match self {
            Msg::Trace0 => u.traces.original += Felt::ONE,
            Msg::Trace1 => u.traces.interaction += Felt::ONE,
            Msg::Composition => u.composition += Felt::ONE,
            Msg::Oods(i) => u.oods_values[*i] += Felt::ONE,
            Msg::FriLayer(i) => u.fri.inner_layers[*i] += Felt::ONE,
            Msg::LastCoeff(i) => u.fri.last_layer_coefficients[*i] += Felt::ONE,
            Msg::Nonce => u.proof_of_work.nonce = u.proof_of_work.nonce.wrapping_add(1),
        }
    }
}
fn messages(p: &StarkProof) -> Vec<Msg> {
    let u = &p.unsent_commitment;
    let mut v = vec![Msg::Trace0, Msg::Trace1, Msg::Composition];
    v.extend((0..u.oods_values.len()).map(Msg::Oods));
    v.extend((0..u.fri.inner_layers.len()).map(Msg::FriLayer));
    v.extend((0..u.fri.last_layer_coefficients.len()).map(Msg::LastCoeff));
    v.push(Msg::Nonce);
    v
}

/// Challenges in protocol order with the index of the first message they must depend on.
fn challenge_list(c: &Commit, n_oods: usize, n_fri: usize, n_last: usize) -> Vec<(String, Felt, usize)> {
    // message indices: 0 trace0, 1 trace1, 2 composition, 3.. oods, then fri layers, then last coeffs, then nonce
    let mut out = Vec::new();
    for (i, e) in c.interaction_elements.iter().enumerate() {
        out.push((format!("interaction_element[{}]", i), *e, 1)); // after trace0 (message 0): depends on messages < 1
    }
    out.push(("oods_point".into(), c.oods_point, 3));
    if c.oods_coefficients.len() > 1 {
        out.push(("oods_alpha".into(), c.oods_coefficients[1], 3 + n_oods));
    }
    for (i, e) in c.fri_eval_points.iter().enumerate() {
        out.push((format!("fri_eval_point[{}]", i), *e, 3 + n_oods + i + 1));
    }
    let all = 3 + n_oods + n_fri + n_last + 1;
    // the query list as one challenge (hash of its members through their hex)
    let qs: Vec<String> = c.queries.iter().map(fhex).collect();
    out.push(("queries".into(), Felt::from(crate::kit::report::fnv(qs.join(",").as_bytes())), all));
    out
}
fn msg_index(m: &Msg, n_oods: usize, n_fri: usize) -> usize {
    match m {
        Msg::Trace0 => 0,
        Msg::Trace1 => 1,
        Msg::Composition => 2,
        Msg::Oods(i) => 3 + i,
        Msg::FriLayer(i) => 3 + n_oods + i,
        Msg::LastCoeff(i) => 3 + n_oods + n_fri + i,
        Msg::Nonce => usize::MAX - 1,
    }
}

fn conformance<L: LayoutTrait + GenericLayoutTrait>(pf: &ProofFile, rep: &mut Report) -> Option<Commit>
where
    L::InteractionElements: serde::Serialize,
{
    let c = match commit_phase::<L>(&pf.loaded.proof) {
        Ok(c) => c,
        Err(e) => {
            rep.eval("conformance:commit-fails");
            rep.violation("conformance:honest-commit-phase-fails", &format!("{}: commit phase of an honest proof fails: {}", pf.name, e), json!({"kind": "conformance", "proof": pf.name}));
            return None;
        }
    };
    let log = &pf.loaded.log;
    let mut lines = 0u64;
    let mut bad = Vec::new();
    if c.interaction_elements != log.interaction_elements {
        bad.push("interaction elements".to_string());
    }
    lines += log.interaction_elements.len() as u64;
    if Some(c.oods_point) != log.oods_point {
        bad.push("out-of-domain point".to_string());
    }
    lines += 1;
    if c.oods_coefficients.get(1).cloned() != log.oods_alpha || c.oods_coefficients.first() != Some(&Felt::ONE) {
        bad.push("DEEP coefficient base".to_string());
    }
    lines += 1;
    // the whole coefficient vector is [1, a, a^2, ...] of length MASK_SIZE + CONSTRAINT_DEGREE
    if c.oods_coefficients.len() != L::MASK_SIZE + L::CONSTRAINT_DEGREE
        || c.oods_coefficients.windows(2).any(|w| w[1] != w[0] * c.oods_coefficients[1])
    {
        bad.push("DEEP coefficient vector is not [1,a,a^2,..] of length MASK_SIZE+CONSTRAINT_DEGREE".to_string());
    }
    if c.fri_eval_points != log.fri_eval_points {
        bad.push("FRI evaluation points".to_string());
    }
    lines += log.fri_eval_points.len() as u64;
    let mut logged = log.query_indices.clone();
    logged.sort();
    logged.dedup();
    let got: Vec<u64> = c.queries.iter().map(|q| f2b(q).to_u64().unwrap_or(u64::MAX)).collect();
    if got != logged {
        bad.push("query indices".to_string());
    }
    lines += log.query_indices.len() as u64;
    rep.evals(if bad.is_empty() { "conformance:match" } else { "conformance:mismatch" }, lines);
    rep.traces_validated += 1;
    rep.nontrivial_case(&format!("conformance|{}", pf.name));
    rep.sample("conformance", json!({"kind": "conformance", "proof": pf.name, "vp_lines_matched": lines, "oods_point": fhex(&c.oods_point), "first_query": got.first()}));
    if !bad.is_empty() {
        rep.violation(&format!("conformance:{}", bad[0]), &format!("{}: verifier-derived {} differ from the prover's log", pf.name, bad.join(", ")), json!({"kind": "conformance", "proof": pf.name}));
    }
    Some(c)
}

fn ordering<L: LayoutTrait + GenericLayoutTrait>(pf: &ProofFile, honest: &Commit, quick: bool, rep: &mut Report)
where
    L::InteractionElements: serde::Serialize,
{
    let p = &pf.loaded.proof;
    let (n_oods, n_fri, n_last) = (p.unsent_commitment.oods_values.len(), p.unsent_commitment.fri.inner_layers.len(), p.unsent_commitment.fri.last_layer_coefficients.len());
    let base = challenge_list(honest, n_oods, n_fri, n_last);
    let mut msgs = messages(p);
    if quick {
        // every class, first/last position of the long vectors
        msgs.retain(|m| match m {
            Msg::Oods(i) => *i < 3 || *i + 3 >= n_oods,
            Msg::LastCoeff(i) => *i < 2 || *i + 2 >= n_last,
            _ => true,
        });
    }
    let results: Vec<(Msg, Result<Commit, String>)> = msgs
        .par_iter()
        .map(|m| {
            let mut q = clone_proof(p);
            m.apply(&mut q);
            (m.clone(), commit_phase::<L>(&q))
        })
        .collect();
    for (m, r) in results {
        rep.nontrivial_case(&format!("ordering|{}|{:?}", pf.name, m));
        match r {
            Err(_) => rep.eval(&format!("ordering:{}:commit-rejects", m.class())),
            Ok(c) => {
                // the commit phase survived a changed message: every later challenge must have changed, every earlier one not
                let now = challenge_list(&c, n_oods, n_fri, n_last);
                let mi = msg_index(&m, n_oods, n_fri);
                let mut stale = Vec::new();
                let mut early = Vec::new();
                for ((name, v0, dep), (_, v1, _)) in base.iter().zip(now.iter()) {
                    let depends = if m == Msg::Nonce { name == "queries" } else { mi < *dep };
                    if depends && v0 == v1 {
                        stale.push(name.clone());
                    }
                    if !depends && v0 != v1 {
                        early.push(name.clone());
                    }
                }
                let class = if stale.is_empty() && early.is_empty() { "commit-accepts-all-later-changed" } else { "commit-accepts-STALE" };
                rep.eval(&format!("ordering:{}:{}", m.class(), class));
                if !stale.is_empty() || !early.is_empty() {
                    rep.violation(&format!("ordering:{}:{}", m.class(), if !stale.is_empty() { "later-challenge-unchanged" } else { "earlier-challenge-changed" }),
                        &format!("{}: after changing {:?} the commit phase still succeeds and challenges {:?} are unchanged / {:?} changed although they precede it", pf.name, m, stale, early),
                        json!({"kind": "ordering", "proof": pf.name, "msg": m.to_json()}));
                }
            }
        }
    }
}

/// The nonce is a prover message like any other: with the difficulty declared as 0 (the work check is
/// vacuous, `stark_commit` does not validate the configuration) the commit phase succeeds for every nonce,
/// and the query indices - the only challenge after it - must change with it while nothing earlier does.
fn nonce_at_zero_difficulty<L: LayoutTrait + GenericLayoutTrait>(pf: &ProofFile, rep: &mut Report)
where
    L::InteractionElements: serde::Serialize,
{
    let mut p0 = clone_proof(&pf.loaded.proof);
    p0.config.proof_of_work.n_bits = 0;
    let mut p1 = clone_proof(&p0);
    p1.unsent_commitment.proof_of_work.nonce = p1.unsent_commitment.proof_of_work.nonce.wrapping_add(1);
    let mut p2 = clone_proof(&p0);
    p2.unsent_commitment.proof_of_work.nonce ^= 1 << 40;
    let u = &pf.loaded.proof.unsent_commitment;
    let (n_oods, n_fri, n_last) = (u.oods_values.len(), u.fri.inner_layers.len(), u.fri.last_layer_coefficients.len());
    let base = match commit_phase::<L>(&p0) {
        Ok(c) => c,
        Err(e) => {
            rep.eval("ordering:nonce-at-difficulty-0:commit-rejects-honest");
            rep.violation("ordering:nonce-at-difficulty-0:commit-rejects", &format!("{}: stark_commit with the difficulty declared as 0 rejects the honest messages: {}", pf.name, e), json!({"kind": "nonce0", "proof": pf.name}));
            return;
        }
    };
    let b = challenge_list(&base, n_oods, n_fri, n_last);
    for (tag, q) in [("+1", &p1), ("bit40", &p2)] {
        rep.nontrivial_case(&format!("nonce0|{}|{}", pf.name, tag));
        match commit_phase::<L>(q) {
            Err(e) => {
                rep.eval("ordering:nonce-at-difficulty-0:commit-rejects");
                rep.violation("ordering:nonce-at-difficulty-0:commit-rejects", &format!("{}: difficulty 0, nonce {}: {}", pf.name, tag, e), json!({"kind": "nonce0", "proof": pf.name}));
            }
            Ok(c) => {
                let now = challenge_list(&c, n_oods, n_fri, n_last);
                let mut bad = Vec::new();
                for ((name, v0, _), (_, v1, _)) in b.iter().zip(now.iter()) {
                    let depends = name == "queries";
                    if depends == (v0 == v1) {
                        bad.push(name.clone());
                    }
                }
                rep.eval(if bad.is_empty() { "ordering:nonce-at-difficulty-0:queries-follow-the-nonce" } else { "ordering:nonce-at-difficulty-0:STALE" });
                if !bad.is_empty() {
                    rep.violation("ordering:nonce:not-bound-at-difficulty-0", &format!("{}: difficulty 0, nonce {}: challenges {:?} do not depend on the nonce as they must", pf.name, tag, bad), json!({"kind": "nonce0", "proof": pf.name}));
                }
            }
        }
    }
}

/// Component level: traces_commit and fri_commit return their challenges directly.
fn component_ordering<L: LayoutTrait>(pf: &ProofFile, rep: &mut Report)
where
    L::InteractionElements: serde::Serialize + PartialEq,
{
    let p = &pf.loaded.proof;
    let start = Felt::from(12345u64);
    let run_traces = |orig: Felt, inter: Felt| {
        panics::catch(|| {
            let mut t = Transcript::new(start);
            let u = swiftness_air::trace::UnsentCommitment { original: orig, interaction: inter };
            let c = L::traces_commit(&mut t, &u, p.config.traces.clone());
            (serde_json::to_string(&c.interaction_elements).unwrap(), *t.digest(), *t.counter())
        })
    };
    let u = &p.unsent_commitment;
    let h = run_traces(u.traces.original, u.traces.interaction);
    let a = run_traces(u.traces.original + Felt::ONE, u.traces.interaction);
    let b = run_traces(u.traces.original, u.traces.interaction + Felt::ONE);
    if let (Ok(h), Ok(a), Ok(b)) = (h, a, b) {
        let ok = h.0 != a.0 && h.1 != a.1 && h.0 == b.0 && h.1 != b.1;
        rep.eval(if ok { "traces_commit:ordering-ok" } else { "traces_commit:ordering-wrong" });
        rep.nontrivial_case(&format!("traces_commit|{}", pf.name));
        if !ok {
            rep.violation("traces_commit:ordering", &format!("{}: interaction elements must depend on the original commitment only, the final state on both", pf.name), json!({"kind": "component", "proof": pf.name}));
        }
    } else {
        rep.eval("traces_commit:panic");
    }
    // fri_commit
    let run_fri = |un: swiftness_fri::types::UnsentCommitment| {
        let cfg = p.config.fri.clone();
        panics::catch(move || {
            let mut t = Transcript::new(start);
            let c = fri_commit(&mut t, un, cfg);
            (c.eval_points, *t.digest())
        })
    };
    if let Ok(h) = run_fri(u.fri.clone()) {
        for i in 0..u.fri.inner_layers.len() {
            let mut un = u.fri.clone();
            un.inner_layers[i] += Felt::ONE;
            if let Ok(m) = run_fri(un) {
                let ok = h.0[..i] == m.0[..i] && (i..h.0.len()).all(|k| h.0[k] != m.0[k]) && h.1 != m.1;
                rep.eval(if ok { "fri_commit:ordering-ok" } else { "fri_commit:ordering-wrong" });
                rep.nontrivial_case(&format!("fri_commit|{}|{}", pf.name, i));
                if !ok {
                    rep.violation("fri_commit:ordering:layer", &format!("{}: changing layer commitment {} must leave evaluation points before it unchanged and change all from it on", pf.name, i), json!({"kind": "component", "proof": pf.name}));
                }
            }
        }
        for i in [0usize, u.fri.last_layer_coefficients.len().saturating_sub(1)] {
            let mut un = u.fri.clone();
            if un.last_layer_coefficients.is_empty() {
                break;
            }
            un.last_layer_coefficients[i] += Felt::ONE;
            if let Ok(m) = run_fri(un) {
                let ok = h.0 == m.0 && h.1 != m.1;
                rep.eval(if ok { "fri_commit:last-layer-ok" } else { "fri_commit:last-layer-wrong" });
                if !ok {
                    rep.violation("fri_commit:ordering:last-layer", &format!("{}: last-layer coefficient {} must be absorbed after all evaluation points were drawn", pf.name, i), json!({"kind": "component", "proof": pf.name}));
                }
            }
        }
    }
}

pub fn run(ctx: &Ctx, rep: &mut Report) {
    let files = stonefile::native_proofs(ctx);
    for pf in &files {
        let l = pf.loaded.meta.layout.as_str();
        with_layout!(l, L, {
            if let Some(c) = conformance::<L>(pf, rep) {
                ordering::<L>(pf, &c, ctx.quick(), rep);
            }
            component_ordering::<L>(pf, rep);
            nonce_at_zero_difficulty::<L>(pf, rep);
        });
    }
    rep.extra.insert("recorded_proofs".into(), json!(files.iter().map(|f| f.name.clone()).collect::<Vec<_>>()));
}

pub fn replay(ctx: &Ctx, case: &Value) -> crate::props::ReplayResult {
    let name = case["proof"].as_str().ok_or("proof")?;
    let pf = stonefile::corpus(ctx).into_iter().find(|p| p.name == name).ok_or("no such proof")?;
    let l = pf.loaded.meta.layout.clone();
    let mut rep = Report::new("C08", "model_checking", "");
    match case["kind"].as_str() {
        Some("conformance") => {
            with_layout!(l.as_str(), L, {
                conformance::<L>(&pf, &mut rep);
            });
        }
        Some("ordering") => {
            let m = Msg::from_json(&case["msg"]).ok_or("msg")?;
            with_layout!(l.as_str(), L, {
                if let Ok(h) = commit_phase::<L>(&pf.loaded.proof) {
                    let mut q = clone_proof(&pf.loaded.proof);
                    m.apply(&mut q);
                    let p = &pf.loaded.proof.unsent_commitment;
                    let (n_oods, n_fri, n_last) = (p.oods_values.len(), p.fri.inner_layers.len(), p.fri.last_layer_coefficients.len());
                    if let Ok(c) = commit_phase::<L>(&q) {
                        let base = challenge_list(&h, n_oods, n_fri, n_last);
                        let now = challenge_list(&c, n_oods, n_fri, n_last);
                        let mi = msg_index(&m, n_oods, n_fri);
                        for ((name, v0, dep), (_, v1, _)) in base.iter().zip(now.iter()) {
                            let depends = if m == Msg::Nonce { name == "queries" } else { mi < *dep };
                            if (depends && v0 == v1) || (!depends && v0 != v1) {
                                rep.violation("ordering", name, json!({}));
                            }
                        }
                    }
                }
            });
        }
        Some("nonce0") => {
            with_layout!(l.as_str(), L, {
                nonce_at_zero_difficulty::<L>(&pf, &mut rep);
            });
        }
        Some("component") => {
            with_layout!(l.as_str(), L, {
                component_ordering::<L>(&pf, &mut rep);
            });
        }
        _ => return Err("unknown replay kind".into()),
    }
    Ok((!rep.violations.is_empty(), format!("{:?}", rep.violations.keys().collect::<Vec<_>>())))
}
