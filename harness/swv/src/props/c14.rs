//! C14 - public-input validation and returned hashes follow the memory layout.
use crate::kit::{f2b, fhex, fu, panics::{self, verdict, Verdict}, report::Report, Ctx};
use crate::refm::{pubin::{expected_hashes, rules, validity, Hashes, LayoutRules, Validity}, stonefile::{self, LAYOUTS}};
use crate::with_layout;
use num_bigint::BigUint;
use rayon::prelude::*;
use serde_json::{json, Value};
use starknet_crypto::Felt;
use swiftness_air::{domains::StarkDomains, layout::LayoutTrait, public_memory::PublicInput};

pub struct Base {
    pub name: String,
    pub layout: String,
    pub pi: Value,
    pub log_trace: u64,
}

fn hexu(n: u64) -> Value {
    Value::String(format!("{:#x}", n))
}
fn get_u64(v: &Value) -> u64 {
    u64::from_str_radix(v.as_str().unwrap().trim_start_matches("0x"), 16).unwrap()
}

fn bases(ctx: &Ctx) -> Vec<Base> {
    let mut out = Vec::new();
    let mut seen_layout = std::collections::BTreeSet::new();
    for pf in stonefile::corpus(ctx) {
        if ctx.quick() && !seen_layout.insert(pf.loaded.meta.layout.clone()) {
            continue;
        }
        out.push(Base { name: pf.name.clone(), layout: pf.loaded.meta.layout.clone(), pi: serde_json::to_value(&pf.loaded.proof.public_input).unwrap(), log_trace: pf.loaded.meta.log_trace as u64 });
    }
    // synthetic small traces for the static layouts: empty builtin segments
    for l in LAYOUTS.iter().filter(|l| **l != "dynamic") {
        let r = rules(l).unwrap();
        for lns in [0u64, 3, 6, 7, 9] {
            let mut segs = vec![json!({"begin_addr": "0x1", "stop_ptr": "0x5"}), json!({"begin_addr": "0x10", "stop_ptr": "0x20"}), json!({"begin_addr": "0x20", "stop_ptr": "0x22"})];
            for k in 3..r.n_segments {
                let a = 0x100 * k as u64;
                segs.push(json!({"begin_addr": hexu(a), "stop_ptr": hexu(a)}));
            }
            let mut page: Vec<Value> = (1..=13u64).map(|a| json!({"address": hexu(a), "value": hexu(1000 + a)})).collect();
            page.push(json!({"address": "0x20", "value": "0x77"}));
            page.push(json!({"address": "0x21", "value": "0x78"}));
            let pi = json!({
                "log_n_steps": hexu(lns), "range_check_min": "0x10", "range_check_max": "0x8000",
                "layout": fhex(&crate::kit::b2f(&BigUint::from_bytes_be(l.as_bytes()))),
                "segments": segs, "padding_addr": "0x1", "padding_value": "0x3e9",
                "main_page": page, "continuous_page_headers": [],
            });
            out.push(Base { name: format!("synthetic/{}/log_n_steps={}", l, lns), layout: l.to_string(), pi, log_trace: lns + 4 });
        }
    }
    out
}

#[derive(Clone, Debug)]
struct Case {
    desc: String,
    class: String,
    pi: Value,
    log_trace: u64,
}

fn validate_cases(b: &Base, r: Option<&LayoutRules>) -> Vec<Case> {
    let mut out = Vec::new();
    let mut push = |desc: String, class: &str, pi: Value, lt: u64| out.push(Case { desc, class: class.to_string(), pi, log_trace: lt });
    push("none".into(), "none", b.pi.clone(), b.log_trace);
    let lns = get_u64(&b.pi["log_n_steps"]);
    for (tag, v) in [("-1", lns.wrapping_sub(1)), ("+1", lns + 1), ("79", 79), ("80", 80)] {
        if v == lns || v == u64::MAX {
            continue;
        }
        let mut p = b.pi.clone();
        p["log_n_steps"] = hexu(v);
        push(format!("log_n_steps{}", tag), "log_n_steps", p, b.log_trace);
    }
    // the same power of two again: log_n_steps + ord(2), where ord(2) is the multiplicative order of 2 modulo p
    // (2^(k + ord) = 2^k in the field although the integer k + ord is astronomically large)
    {
        let ord = crate::refm::zint::order_of_two();
        for k in [1u32, 2] {
            let v = crate::kit::b2f(&(num_bigint::BigUint::from(lns) + &ord * num_bigint::BigUint::from(k)));
            let mut p = b.pi.clone();
            p["log_n_steps"] = Value::String(fhex(&v));
            push(format!("log_n_steps+{}*ord(2)", k), "log_n_steps", p, b.log_trace);
        }
    }
    for (tag, lt) in [("-1", b.log_trace.wrapping_sub(1)), ("+1", b.log_trace + 1)] {
        if lt != u64::MAX {
            push(format!("log_trace{}", tag), "log_trace", b.pi.clone(), lt);
        }
    }
    {
        // both moved together: still matching
        let mut p = b.pi.clone();
        p["log_n_steps"] = hexu(lns + 1);
        push("log_n_steps+1,log_trace+1".into(), "steps-and-trace", p, b.log_trace + 1);
    }
    {
        let mut p = b.pi.clone();
        p["segments"].as_array_mut().unwrap().pop();
        push("segments-1".into(), "segment-count", p, b.log_trace);
        let mut p = b.pi.clone();
        let l = p["segments"].as_array().unwrap().last().unwrap().clone();
        p["segments"].as_array_mut().unwrap().push(l);
        push("segments+1".into(), "segment-count", p, b.log_trace);
    }
    {
        let mut p = b.pi.clone();
        let code = Felt::from_hex(p["layout"].as_str().unwrap()).unwrap();
        p["layout"] = Value::String(fhex(&(code + Felt::ONE)));
        push("layout+1".into(), "layout-code", p, b.log_trace);
    }
    let (mn, mx) = (get_u64(&b.pi["range_check_min"]), get_u64(&b.pi["range_check_max"]));
    for (tag, a, c) in [("min>max", mx + 1, mx), ("min=max", mx, mx), ("max=65535", mn, 65535), ("max=65536", mn, 65536), ("min=0", 0, mx), ("max=p-1", mn, u64::MAX)] {
        let mut p = b.pi.clone();
        p["range_check_min"] = hexu(a);
        p["range_check_max"] = if c == u64::MAX { Value::String(fhex(&crate::kit::p_minus(1))) } else { hexu(c) };
        push(format!("range_check {}", tag), "range-check", p, b.log_trace);
    }
    // output stop below begin
    {
        let mut p = b.pi.clone();
        let bg = get_u64(&p["segments"][2]["begin_addr"]);
        p["segments"][2]["stop_ptr"] = hexu(bg - 1);
        push("output stop<begin".into(), "output-segment", p, b.log_trace);
    }
    if b.layout == "dynamic" && b.pi.get("dynamic_params").map(|d| d.is_object()).unwrap_or(false) {
        // dynamic layout: a builtin holds trace_length / row_ratio instances if its uses flag is set, none
        // otherwise; every usage above that (or not a whole number of instances) must be rejected
        const DYN: [(&str, usize, u64, &str, &str); 10] = [
            ("pedersen", 3, 3, "uses_pedersen_builtin", "pedersen_builtin_row_ratio"),
            ("range_check", 4, 1, "uses_range_check_builtin", "range_check_builtin_row_ratio"),
            ("ecdsa", 5, 2, "uses_ecdsa_builtin", "ecdsa_builtin_row_ratio"),
            ("bitwise", 6, 5, "uses_bitwise_builtin", "bitwise_row_ratio"),
            ("ec_op", 7, 7, "uses_ec_op_builtin", "ec_op_builtin_row_ratio"),
            ("keccak", 8, 16, "uses_keccak_builtin", "keccak_row_ratio"),
            ("poseidon", 9, 6, "uses_poseidon_builtin", "poseidon_row_ratio"),
            ("range_check96", 10, 1, "uses_range_check96_builtin", "range_check96_builtin_row_ratio"),
            ("add_mod", 11, 7, "uses_add_mod_builtin", "add_mod_row_ratio"),
            ("mul_mod", 12, 7, "uses_mul_mod_builtin", "mul_mod_row_ratio"),
        ];
        let dp = &b.pi["dynamic_params"];
        for (name, seg, cells, flag, ratio) in DYN {
            let on = dp[flag].as_u64().unwrap_or(0) == 1;
            let rr = dp[ratio].as_u64().unwrap_or(0);
            let copies: u64 = if on && rr > 0 && b.log_trace < 40 { (1u64 << b.log_trace) / rr } else { 0 };
            let bg = get_u64(&b.pi["segments"][seg]["begin_addr"]);
            let mut usages: Vec<(&str, i128, bool)> = vec![("copies+1", (copies as i128 + 1) * cells as i128, false), ("stop<begin", -1, false), ("1 instance, flag off, ratio = trace length", cells as i128, true)];
            if cells > 1 {
                usages.push(("non-multiple", copies as i128 * cells as i128 + 1, false));
            }
            usages.push(("minus-1-instance", -(cells as i128), false));
            // ... and with ANOTHER builtin switched on (its ratio set): a switched-off builtin still holds no instance
            if !on {
                for (other, _, _, oflag, oratio) in DYN {
                    if other == name || dp[oflag].as_u64().unwrap_or(0) == 1 {
                        continue;
                    }
                    let mut p = b.pi.clone();
                    p["dynamic_params"][oflag] = json!(1);
                    p["dynamic_params"][oratio] = json!(1u64 << b.log_trace.min(40));
                    p["dynamic_params"][ratio] = json!(1u64 << b.log_trace.min(40));
                    p["segments"][seg]["stop_ptr"] = hexu(bg + cells);
                    push(format!("{} usage 1 instance, flag off, {} switched on", name, other), "dyn-builtin-usage:off-while-another-is-on", p, b.log_trace);
                }
            }
            for (tag, u, force_off) in usages {
                let stop = bg as i128 + u;
                if stop < 0 || (force_off && on) {
                    continue;
                }
                let mut p = b.pi.clone();
                p["segments"][seg]["stop_ptr"] = hexu(stop as u64);
                if force_off {
                    // one instance would fit if the ratio alone decided (the other unit budgets are barely touched)
                    p["dynamic_params"][ratio] = json!(1u64 << b.log_trace.min(40));
                }
                push(format!("{} usage {}", name, tag), &format!("dyn-builtin-usage:{}", tag.split(',').next().unwrap().replace(' ', "-")), p, b.log_trace);
            }
        }
    }
    if let Some(r) = r {
        for bt in &r.builtins {
            let bg = get_u64(&b.pi["segments"][bt.segment]["begin_addr"]);
            let ratio_log = bt.row_ratio.trailing_zeros() as u64;
            let copies: u64 = if b.log_trace >= ratio_log && b.log_trace - ratio_log < 40 { 1u64 << (b.log_trace - ratio_log) } else { 0 };
            let mut usages: Vec<(String, i128)> = vec![
                ("0".into(), 0), ("1 instance".into(), bt.cells as i128), ("copies".into(), copies as i128 * bt.cells as i128),
                ("copies+1".into(), (copies as i128 + 1) * bt.cells as i128), ("stop<begin".into(), -1),
            ];
            if bt.cells > 1 {
                usages.push(("non-multiple".into(), bt.cells as i128 + 1));
                usages.push(("1 cell".into(), 1));
            }
            // stop BELOW begin by a whole number of instances (a count taken over the integers sees -1, -2 instances)
            usages.push(("minus 1 instance".into(), -(bt.cells as i128)));
            usages.push(("minus 2 instances".into(), -2 * bt.cells as i128));
            for (tag, u) in usages {
                let stop = bg as i128 + u;
                if stop < 0 || stop >= (1i128 << 63) {
                    continue;
                }
                let mut p = b.pi.clone();
                p["segments"][bt.segment]["stop_ptr"] = hexu(stop as u64);
                push(format!("{} usage {}", bt.name, tag), &format!("builtin-usage:{}", tag.split(' ').next().unwrap()), p, b.log_trace);
            }
        }
    }
    out
}

fn hash_cases(b: &Base) -> Vec<Case> {
    let mut out = Vec::new();
    let mut push = |desc: String, class: &str, pi: Value| out.push(Case { desc, class: class.to_string(), pi, log_trace: b.log_trace });
    push("none".into(), "none", b.pi.clone());
    let n = b.pi["main_page"].as_array().unwrap().len();
    let stride = if n > 100 { 7 } else { 1 }; // the dynamic page has 479 cells: every 7th position plus the ends
    let pos: Vec<usize> = (0..n).filter(|i| i % stride == 0 || *i + 3 >= n || *i < 3).collect();
    for &i in &pos {
        let mut p = b.pi.clone();
        let a = get_u64(&p["main_page"][i]["address"]);
        p["main_page"][i]["address"] = hexu(a + 1);
        push(format!("cell[{}].address+1", i), "cell-address", p);
        // the same address plus a high power of two (differs only above the low 32 / 64 bits)
        for (tag, hi) in [("2^32", Felt::from(1u64 << 32)), ("2^64", crate::kit::b2f(&crate::kit::pow2(64))), ("2^250", crate::kit::b2f(&crate::kit::pow2(250)))] {
            let mut p = b.pi.clone();
            p["main_page"][i]["address"] = Value::String(fhex(&(fu(a) + hi)));
            push(format!("cell[{}].address+{}", i, tag), "cell-address-high", p);
        }
        let mut p = b.pi.clone();
        let v = Felt::from_hex(p["main_page"][i]["value"].as_str().unwrap()).unwrap();
        p["main_page"][i]["value"] = Value::String(fhex(&(v + Felt::ONE)));
        push(format!("cell[{}].value+1", i), "cell-value", p);
        if i + 1 < n {
            let mut p = b.pi.clone();
            p["main_page"].as_array_mut().unwrap().swap(i, i + 1);
            push(format!("transpose cells {},{}", i, i + 1), "cell-transposition", p);
        }
        let mut p = b.pi.clone();
        p["main_page"].as_array_mut().unwrap().remove(i);
        push(format!("delete cell {}", i), "cell-deletion", p);
        let mut p = b.pi.clone();
        p["main_page"].as_array_mut().unwrap().truncate(i);
        push(format!("truncate to {}", i), "truncation", p);
        let mut p = b.pi.clone();
        let c = p["main_page"][i].clone();
        p["main_page"].as_array_mut().unwrap().insert(i + 1, c);
        push(format!("duplicate cell {}", i), "cell-duplicate", p);
    }
    // two neighbouring cells moved together, and every cell from position i on moved (links between pairs)
    for &i in &pos {
        for (tag, upto) in [("pair", (i + 2).min(n)), ("suffix", n)] {
            if i + 1 >= n || (tag == "suffix" && i == 0) {
                continue;
            }
            let mut p = b.pi.clone();
            for k in i..upto {
                let a = get_u64(&p["main_page"][k]["address"]);
                p["main_page"][k]["address"] = hexu(a + 1);
            }
            push(format!("cells {}..{} address+1 ({})", i, upto, tag), &format!("cell-address-{}-shift", tag), p);
        }
    }
    // program region shifted by one address / output region moved by one address
    let initial_fp = get_u64(&b.pi["segments"][1]["begin_addr"]);
    let (ob, os) = (get_u64(&b.pi["segments"][2]["begin_addr"]), get_u64(&b.pi["segments"][2]["stop_ptr"]));
    {
        let mut p = b.pi.clone();
        for c in p["main_page"].as_array_mut().unwrap() {
            let a = get_u64(&c["address"]);
            if a >= 1 && a + 3 <= initial_fp {
                c["address"] = hexu(a + 1);
            }
        }
        push("program region shifted by one address".into(), "program-region-shift", p);
        let mut p = b.pi.clone();
        for c in p["main_page"].as_array_mut().unwrap() {
            let a = get_u64(&c["address"]);
            if a >= ob && a < os {
                c["address"] = hexu(a + 1);
            }
        }
        push("output region moved by one address".into(), "output-region-shift", p);
    }
    // output segment declared over the last k program addresses, the page cut to the program cells: every
    // needed address is present once, but the page is too short to hold program and output one after the other
    {
        let initial_pc = get_u64(&b.pi["segments"][0]["begin_addr"]);
        let n_prog = (initial_fp - 2).saturating_sub(initial_pc) as usize;
        if n_prog >= 2 && n_prog <= n {
            let prog_end = initial_pc + n_prog as u64; // first address after the program
            for k in [1u64, 2, (os - ob).max(1)] {
                if k as usize > n_prog {
                    continue;
                }
                let mut p = b.pi.clone();
                p["segments"][2]["begin_addr"] = hexu(prog_end - k);
                p["segments"][2]["stop_ptr"] = hexu(prog_end);
                p["main_page"].as_array_mut().unwrap().truncate(n_prog);
                push(format!("output over the last {} program addresses, page cut to the program", k), "output-overlaps-program", p);
            }
        }
    }
    for (tag, f, d) in [("initial_pc+1", "begin_addr", 1i64), ("initial_pc-1", "begin_addr", -1), ("final_pc+1", "stop_ptr", 1), ("final_pc-1", "stop_ptr", -1)] {
        let mut p = b.pi.clone();
        let a = get_u64(&p["segments"][0][f]) as i64 + d;
        p["segments"][0][f] = hexu(a as u64);
        push(tag.into(), "program-segment", p);
    }
    for (tag, d) in [("output_stop+1", 1i64), ("output_stop-1", -1), ("output_begin+1", 0)] {
        let mut p = b.pi.clone();
        if d == 0 {
            p["segments"][2]["begin_addr"] = hexu(ob + 1);
        } else {
            p["segments"][2]["stop_ptr"] = hexu((os as i64 + d) as u64);
        }
        push(tag.into(), "output-segment", p);
    }
    for (tag, d) in [("initial_fp+1", 1i64), ("initial_fp-1", -1)] {
        let mut p = b.pi.clone();
        p["segments"][1]["begin_addr"] = hexu((initial_fp as i64 + d) as u64);
        push(tag.into(), "execution-segment", p);
    }
    {
        let mut p = b.pi.clone();
        p["continuous_page_headers"] = json!([{"start_address": "0x900", "size": "0x2", "hash": "0xabc", "prod": "0x5"}]);
        push("continuous page header present".into(), "continuous-page", p);
    }
    out
}

pub fn run_validate(layout: &str, pi: &PublicInput, log_trace: u64) -> Verdict {
    let d = StarkDomains::new(fu(log_trace), fu(2));
    verdict(|| with_layout!(layout, L, L::validate_public_input(pi, &d)))
}
pub fn run_hashes(layout: &str, pi: &PublicInput) -> (Verdict, Option<(Felt, Felt)>) {
    match panics::catch(|| with_layout!(layout, L, L::verify_public_input(pi))) {
        Ok(Ok(p)) => (Verdict::Ok, Some(p)),
        Ok(Err(e)) => (Verdict::Err(format!("{:?}", e).split('{').next().unwrap_or("").trim().to_string()), None),
        Err(p) => (Verdict::Panic(p), None),
    }
}

/// implementation-specific preconditions of verify_public_input the property does not speak about
fn hash_preconditions(pi: &PublicInput) -> bool {
    let max = BigUint::from(u64::MAX);
    pi.segments.len() >= 3
        && f2b(&pi.segments[0].begin_addr) == BigUint::from(1u32)
        && f2b(&pi.segments[0].stop_ptr) == BigUint::from(5u32)
        && f2b(&pi.segments[1].begin_addr) < max
        && f2b(&pi.segments[1].stop_ptr) < max
        && pi.continuous_page_headers.is_empty()
}

fn judge_validate(rep: &mut Report, b: &Base, c: &Case) {
    let pi: PublicInput = match serde_json::from_value(c.pi.clone()) {
        Ok(p) => p,
        Err(_) => {
            rep.eval("validate:untypable");
            return;
        }
    };
    let v = run_validate(&b.layout, &pi, c.log_trace);
    let replay = json!({"kind": "validate", "layout": b.layout, "pi": c.pi, "log_trace": c.log_trace});
    if c.class != "none" {
        rep.nontrivial_case(&format!("validate|{}|{}", b.name, c.desc));
    }
    match rules(&b.layout) {
        Some(r) => {
            let j = validity(&r, &pi, &BigUint::from(c.log_trace));
            let jc = match &j {
                Validity::Valid => "valid",
                Validity::Invalid(_) => "invalid",
                Validity::Unjudged(_) => "unjudged",
            };
            rep.eval(&format!("validate:{}:{}", jc, v.short()));
            rep.sample(&format!("validate:{}:{}:{}", jc, v.short(), c.class), json!({"base": b.name, "deviation": c.desc, "oracle": format!("{:?}", j), "observed": v.class()}));
            match (&j, v.accepted()) {
                (Validity::Valid, false) => rep.violation(&format!("validate-rejects-valid:{}:{}", c.class, v.short()), &format!("{} [{}]: oracle valid, validate_public_input -> {}", b.name, c.desc, v.class()), replay),
                (Validity::Invalid(why), true) => rep.violation(&format!("validate-accepts:{}:{}", c.class, why.split(' ').skip(1).collect::<Vec<_>>().join("-")), &format!("{} [{}]: oracle invalid ({}), validate_public_input accepts", b.name, c.desc, why), replay),
                _ => {}
            }
        }
        None => {
            // dynamic layout: only the honest input (must be accepted) and deviations the
            // listed rules reject (must be rejected) are judged
            let must_reject = matches!(c.class.as_str(), "log_n_steps" | "log_trace" | "segment-count" | "layout-code" | "output-segment") || c.class.starts_with("dyn-builtin-usage")
                || (c.class == "range-check" && !c.desc.contains("min=max") && !c.desc.contains("max=65535") && !c.desc.contains("min=0"));
            rep.eval(&format!("validate-dynamic:{}:{}", if c.class == "none" { "honest" } else if must_reject { "invalid" } else { "unjudged" }, v.short()));
            if c.class == "none" && !v.accepted() {
                rep.violation("validate-rejects-valid:dynamic-honest", &format!("{}: honest dynamic public input rejected: {}", b.name, v.class()), replay);
            } else if must_reject && v.accepted() {
                rep.violation(&format!("validate-accepts:dynamic:{}", c.class), &format!("{} [{}]: accepted", b.name, c.desc), replay);
            }
        }
    }
}

fn judge_hashes(rep: &mut Report, b: &Base, c: &Case) {
    let pi: PublicInput = match serde_json::from_value(c.pi.clone()) {
        Ok(p) => p,
        Err(_) => {
            rep.eval("hashes:untypable");
            return;
        }
    };
    let (v, pair) = run_hashes(&b.layout, &pi);
    let want = expected_hashes(&pi);
    let pre = hash_preconditions(&pi);
    let replay = json!({"kind": "hashes", "layout": b.layout, "pi": c.pi});
    if c.class != "none" {
        rep.nontrivial_case(&format!("hashes|{}|{}", b.name, c.desc));
    }
    let oc = match &want {
        Hashes::Pairs(..) => "well-formed",
        Hashes::Malformed(_) => "malformed",
    };
    rep.eval(&format!("hashes:{}:{}", oc, v.short()));
    rep.sample(&format!("hashes:{}:{}:{}", oc, v.short(), c.class), json!({"base": b.name, "deviation": c.desc, "oracle": match &want { Hashes::Pairs(ps) => format!("pair({}, {}){}", fhex(&ps[0].0), fhex(&ps[0].1), if ps.len() > 1 { " (+alternatives)" } else { "" }), Hashes::Malformed(w) => format!("malformed: {}", w) }, "observed": v.class()}));
    match (&want, pair) {
        (Hashes::Malformed(why), Some(_)) => rep.violation(&format!("hashes:positional:{}", c.class), &format!("{} [{}]: main page is malformed ({}) but verify_public_input returns hashes", b.name, c.desc, why), replay),
        (Hashes::Pairs(ps), Some((p, o))) => {
            if !ps.contains(&(p, o)) {
                rep.violation(&format!("hashes:wrong-cells:{}", c.class), &format!("{} [{}]: returned hashes differ from the Pedersen chains of the cells at the program / output addresses", b.name, c.desc), replay);
            }
        }
        (Hashes::Pairs(..), None) => {
            // completeness only for the honest page and for pure value changes (canonical order kept)
            if pre && (c.class == "none" || c.class == "cell-value") {
                rep.violation(&format!("hashes:rejects-well-formed:{}:{}", c.class, v.short()), &format!("{} [{}]: well-formed main page rejected: {}", b.name, c.desc, v.class()), replay);
            }
        }
        (Hashes::Malformed(_), None) => {}
    }
}

pub fn run(ctx: &Ctx) -> Report {
    let mut rep = Report::new(
        "C14",
        "exploration",
        "per layout: honest public inputs (shipped proofs) and synthetic small-trace inputs, each with 0 or 1 deviation: step count / \
         trace exponent (+-1, 79, 80, both together), segment count +-1, layout code +1, range-check bounds at their limits, every \
         builtin segment at usage {0, 1 instance, copies, copies+1, non-multiple, 1 cell, stop<begin}; main page: every cell's \
         address +1 / value +1, adjacent transpositions, single deletions, truncation to every prefix, duplicated cell, program / \
         output region shifted, pc / fp / output bounds +-1, continuous page present. Oracle: integer validity predicate (static \
         layouts) and by-address Pedersen chains. Non-trivial: any deviation; distinct by (base, deviation)",
    );
    rep.trust("Pedersen (starknet-crypto); layout definitions (segment order, cells per instance, row ratios) restated in the harness");
    rep.assume("addresses below 2^63 so that modular and integer subtraction coincide");
    let bs = bases(ctx);
    let parts: Vec<Report> = bs
        .par_iter()
        .map(|b| {
            let mut r = Report::new("C14", "exploration", "");
            let rl = rules(&b.layout);
            for c in validate_cases(b, rl.as_ref()) {
                judge_validate(&mut r, b, &c);
            }
            if !b.name.starts_with("synthetic") || b.name.ends_with("=9") {
                for c in hash_cases(b) {
                    judge_hashes(&mut r, b, &c);
                }
            }
            r
        })
        .collect();
    for p in parts {
        rep.merge(p);
    }
    rep.bound_completed = format!("{} bases (7 layouts), 1 deviation", bs.len());
    rep
}

pub fn replay(_ctx: &Ctx, case: &Value) -> super::ReplayResult {
    let layout = case["layout"].as_str().ok_or("layout")?.to_string();
    let mut rep = Report::new("C14", "exploration", "");
    let b = Base { name: "replay".into(), layout, pi: case["pi"].clone(), log_trace: case["log_trace"].as_u64().unwrap_or(0) };
    let c = Case { desc: "replay".into(), class: "replay".into(), pi: case["pi"].clone(), log_trace: b.log_trace };
    match case["kind"].as_str() {
        Some("validate") => judge_validate(&mut rep, &b, &c),
        Some("hashes") => judge_hashes(&mut rep, &b, &c),
        _ => return Err("unknown replay kind".into()),
    }
    Ok((!rep.violations.is_empty(), format!("{:?} {:?}", rep.outcomes.keys().collect::<Vec<_>>(), rep.violations.values().map(|v| v.what.clone()).collect::<Vec<_>>())))
}
