//! C10 - query indices are in range, strictly increasing, and map to the right points.
use crate::kit::{b2f, f2b, fhex, fu, panics, pow2, report::Report, Ctx};
use crate::refm::{sponge::Sponge, zint};
use num_bigint::BigUint;
#[allow(unused_imports)]
use num_traits::ToPrimitive;
use rayon::prelude::*;
use serde_json::{json, Value};
use starknet_crypto::Felt;
use swiftness_air::domains::StarkDomains;
use swiftness_stark::queries::{generate_queries, queries_to_points};
use swiftness_transcript::transcript::Transcript;

/// Reference: low 128 bits of the i-th squeeze, mod 2^e; sorted; de-duplicated.
pub fn ref_queries(digest: Felt, counter: u64, count: u64, e: u32) -> Vec<BigUint> {
    let mut s = Sponge { digest, counter };
    let mut v: Vec<BigUint> = (0..count)
        .map(|_| {
            let r = f2b(&s.squeeze());
            (r % pow2(128)) % pow2(e)
        })
        .collect();
    v.sort();
    v.dedup();
    v
}

fn gen_case(digest: Felt, counter: u64, count: u64, e: u32) -> (Vec<String>, Option<String>, Vec<Felt>) {
    let bound = b2f(&pow2(e));
    crate::kit::watch::set_case(format!("generate_queries: domain 2^{}, {} draws, digest {}, counter {}", e, count, fhex(&digest), counter));
    let run = || {
        let mut t = Transcript::new_with_counter(digest, fu(counter));
        let q = generate_queries(&mut t, fu(count), bound);
        (q, *t.digest(), *t.counter())
    };
    let (q, d1, c1) = match panics::catch(run) {
        Ok(x) => x,
        Err(p) => return (vec![format!("panic:{}", p.site())], Some(format!("generate_queries panicked: {}", p.site())), vec![]),
    };
    // determinism
    let (q2, _, _) = panics::catch(run).unwrap();
    let mut bad = Vec::new();
    let mut classes = Vec::new();
    if q != q2 {
        bad.push("not deterministic".to_string());
    }
    let qi: Vec<BigUint> = q.iter().map(f2b).collect();
    if qi.iter().any(|x| *x >= pow2(e)) {
        bad.push("index out of range".to_string());
    }
    if qi.windows(2).any(|w| w[0] > w[1]) {
        bad.push("not sorted".to_string());
    }
    if qi.windows(2).any(|w| w[0] == w[1]) {
        bad.push("repeated index (not strictly increasing)".to_string());
        classes.push("has-duplicates".to_string());
    }
    if qi.len() as u64 > count {
        bad.push("more indices than the configured count".to_string());
    }
    let want = ref_queries(digest, counter, count, e);
    if qi != want {
        let mut a = qi.clone();
        a.dedup();
        if a == want {
            // differs from the model only by repeats (already reported above)
        } else {
            bad.push(format!("differs from the reference model (got {} indices, model {})", qi.len(), want.len()));
        }
    }
    // the transcript advanced by exactly `count` squeezes and absorbed nothing
    if d1 != digest || c1 != fu(counter + count) {
        bad.push("transcript state after drawing is not (digest, counter+count)".to_string());
    }
    if classes.is_empty() {
        classes.push(if want.len() as u64 == count { "all-distinct".to_string() } else { "model-dedups".to_string() });
    }
    (classes, if bad.is_empty() { None } else { Some(bad.join("; ")) }, q)
}

fn ref_point(w: &BigUint, e: u32, idx: u64) -> BigUint {
    let r = zint::bitrev(idx, e);
    zint::mul(&BigUint::from(3u32), &zint::pow(w, &BigUint::from(r)))
}

fn point_indices(e: u32) -> Vec<u64> {
    point_indices_upto(e, 10)
}
fn point_indices_upto(e: u32, all_upto: u32) -> Vec<u64> {
    let max: u64 = if e == 64 { u64::MAX } else { (1u64 << e) - 1 };
    let mut v: Vec<u64> = Vec::new();
    if e <= all_upto {
        v.extend(0..=max);
    } else {
        v.push(0);
        v.push(max);
        for b in 0..e {
            v.push(1u64 << b);
            v.push(max ^ (1u64 << b));
        }
        v.push(max / 3);
        v.push(0x0123_4567_89ab_cdef & max);
    }
    v.sort();
    v.dedup();
    v
}

fn points_case(e: u32, idxs: &[u64]) -> (String, Option<String>) {
    let t = if e >= 1 { e - 1 } else { 0 };
    let c = e - t;
    let d = match panics::catch(|| StarkDomains::new(fu(t as u64), fu(c as u64))) {
        Ok(d) => d,
        Err(p) => return ("domain-panic".into(), Some(format!("StarkDomains::new({}, {}) panicked: {}", t, c, p.site()))),
    };
    let w = f2b(&d.eval_generator);
    let qs: Vec<Felt> = idxs.iter().map(|&i| fu(i)).collect();
    let pts = match panics::catch(|| queries_to_points(&qs, &d)) {
        Ok(p) => p,
        Err(p) => return ("panic".into(), Some(format!("queries_to_points panicked: {}", p.site()))),
    };
    if pts.len() != idxs.len() {
        return ("len".into(), Some("wrong number of points".into()));
    }
    for (k, &i) in idxs.iter().enumerate() {
        if f2b(&pts[k]) != ref_point(&w, e, i) {
            return ("mismatch".into(), Some(format!("index {} of 2^{} maps to {} instead of 3*w^bitrev(i)", i, e, fhex(&pts[k]))));
        }
    }
    ("points-ok".into(), None)
}

pub fn run(ctx: &Ctx) -> Report {
    let mut rep = Report::new(
        "C10",
        "exploration",
        "generate_queries for every domain exponent e in 1..=64 x count menu {0,1,2,3,5,8,48} (and every count up to \
         2*2^e+1 for e<=3: duplicates forced by pigeonhole) x transcript states {(0,0),(seed,0),(seed,7)}, plus for every e in 4..=20 (24 thorough) the first digest whose 48 draws collide (found with the model); \
         queries_to_points for every index (e<=10) or all single-bit indices, their complements, 0, 2^e-1 (e<=64); \
         recorded proofs: verifier's indices vs the prover's log. Non-trivial: count>=2 draws or a point check; \
         distinct by (e,count,state) / (e,index set)",
    );
    rep.trust("Poseidon (starknet-crypto); num-bigint arithmetic for the reference model");
    let mut r0 = ctx.rng(0x1000);
    let seedf = r0.felt();
    let quick = ctx.quick();
    let mut states = vec![(Felt::ZERO, 0u64), (seedf, 0), (seedf, 7)];
    if !quick {
        states.push((r0.felt(), 0));
        states.push((r0.felt(), 1));
        states.push((Felt::ONE, u32::MAX as u64));
    }
    let small_e = if quick { 3 } else { 6 };
    let mut cases: Vec<(u32, u64, usize)> = Vec::new();
    for e in 1..=64u32 {
        let mut counts: Vec<u64> = vec![0, 1, 2, 3, 5, 8, 48];
        if e <= small_e {
            counts.extend(0..=(2 * (1u64 << e) + 1));
        }
        if (7..=10).contains(&e) {
            // several hundred draws (more than any batch a bounded-memory implementation might use)
            counts.extend([255u64, 256, 257, 300, 513, 1030]);
        }
        counts.sort();
        counts.dedup();
        for c in counts {
            for s in 0..states.len() {
                cases.push((e, c, s));
            }
        }
    }
    // forced collisions beyond the pigeonhole range: for every domain exponent up to 20 (24 thorough) the first
    // transcript digest 0, 1, 2, ... whose 48 draws repeat an index according to the reference model
    let e_coll = if quick { 20 } else { 24 };
    let forced: Vec<(u32, Felt)> = (4..=e_coll)
        .into_par_iter()
        .filter_map(|e| {
            (0..2_000_000u64).map(fu).find(|d| ref_queries(*d, 0, 48, e).len() < 48).map(|d| (e, d))
        })
        .collect();
    rep.extra.insert("forced_collision_exponents".into(), json!(forced.iter().map(|(e, _)| *e).collect::<Vec<_>>()));
    for (e, d) in &forced {
        states.push((*d, 0));
        cases.push((*e, 48, states.len() - 1));
    }
    let res: Vec<((u32, u64, usize), (Vec<String>, Option<String>, Vec<Felt>))> =
        cases.par_iter().map(|&(e, c, s)| ((e, c, s), gen_case(states[s].0, states[s].1, c, e))).collect();
    for ((e, c, s), (classes, bad, q)) in res {
        for cl in &classes {
            rep.eval(&format!("gen:{}", cl));
        }
        if c >= 2 {
            rep.nontrivial_case(&format!("gen|{}|{}|{}", e, c, s));
        }
        let case = json!({"kind": "gen", "e": e, "count": c, "digest": fhex(&states[s].0), "counter": states[s].1,
                          "indices": q.iter().map(fhex).collect::<Vec<_>>()});
        rep.sample(&format!("gen:{}", classes[0]), case.clone());
        if let Some(b) = bad {
            let key = if b.contains("repeated index") && !b.contains("differs") && !b.contains("out of range") && !b.contains("not sorted") {
                "generate_queries:duplicates-kept".to_string()
            } else {
                format!("generate_queries:{}", b.split(';').next().unwrap_or("").trim())
            };
            rep.violation(&key, &format!("domain 2^{}, {} draws, state #{}: {}", e, c, s, b), case);
        }
    }
    // points
    let pres: Vec<(u32, (String, Option<String>), usize)> = (1..=64u32)
        .into_par_iter()
        .map(|e| {
            let idx = point_indices_upto(e, if quick { 10 } else { 14 });
            (e, points_case(e, &idx), idx.len())
        })
        .collect();
    // the same map called for domains of decreasing and of alternating size on ONE thread (a table kept between
    // calls would be stale)
    let seq_orders: Vec<(&str, Vec<u32>)> = vec![
        ("descending", (1..=64u32).rev().collect()),
        ("alternating", (1..=32u32).flat_map(|k| [65 - k, k]).collect()),
    ];
    let seq: Vec<(&str, Vec<(u32, String)>)> = seq_orders
        .par_iter()
        .map(|(name, order)| {
            let mut bad = Vec::new();
            for &e in order {
                let idx = point_indices_upto(e, 6);
                if let (_, Some(b)) = points_case(e, &idx) {
                    bad.push((e, b));
                }
            }
            (*name, bad)
        })
        .collect();
    for (name, bad) in seq {
        rep.evals(&format!("points-sequence:{}:{}", name, if bad.is_empty() { "ok" } else { "mismatch" }), 64);
        rep.nontrivial_case(&format!("points-seq|{}", name));
        for (e, b) in bad.into_iter().take(5) {
            rep.violation(&format!("queries_to_points:history:{}", name), &format!("e={} in the {} sequence: {}", e, name, b), json!({"kind": "points-seq", "order": name, "e": e}));
        }
    }
    for (e, (class, bad), n) in pres {
        rep.evals(&format!("points:{}", class), n as u64);
        rep.nontrivial_case(&format!("points|{}", e));
        if e == 1 || e == 20 || e == 64 {
            rep.samples.push(json!({"kind": "points", "e": e, "n_indices": n, "observed": class}));
        }
        if let Some(b) = bad {
            rep.violation(&format!("queries_to_points:{}", class), &format!("e={}: {}", e, b), json!({"kind": "points", "e": e}));
        }
    }
    #[cfg(feature = "full")]
    recorded(ctx, &mut rep);
    rep.bound_completed = format!("domain exponents 1..=64 complete; count menu (+ every count up to 2*2^e+1 for e<={}); {} transcript states; every index for e<={}", small_e, states.len(), if quick { 10 } else { 14 });
    rep
}

/// Recorded proofs: the verifier's query list equals sort+dedup of the prover's logged
/// indices (annotation lines of the decommitment phase carry `Row r`).
#[cfg(feature = "full")]
fn recorded(ctx: &Ctx, rep: &mut Report) {
    use crate::refm::stonefile;
    for pf in stonefile::native_proofs(ctx) {
        let logged = match pf.logged_query_rows() {
            Some(l) => l,
            None => continue,
        };
        let derived = crate::props::common::derive_queries(&pf);
        match derived {
            Ok(q) => {
                let qi: Vec<u64> = q.iter().map(|x| f2b(x).to_u64().unwrap_or(u64::MAX)).collect();
                let same = qi == logged;
                rep.eval(if same { "recorded:match" } else { "recorded:mismatch" });
                rep.nontrivial_case(&format!("recorded|{}", pf.name));
                rep.traces_validated += 1;
                rep.sample("recorded", json!({"kind": "recorded", "proof": pf.name, "n_queries": qi.len(), "first": qi.first()}));
                if !same {
                    rep.violation("generate_queries:recorded-mismatch", &format!("{}: verifier's query indices differ from the prover's log", pf.name),
                        json!({"kind": "recorded", "proof": pf.name}));
                }
            }
            Err(e) => rep.machinery(&format!("C10 recorded {}: {}", pf.name, e)),
        }
    }
}

pub fn replay(_ctx: &Ctx, case: &Value) -> super::ReplayResult {
    match case["kind"].as_str() {
        Some("gen") => {
            let e = case["e"].as_u64().ok_or("e")? as u32;
            let count = case["count"].as_u64().ok_or("count")?;
            let digest = Felt::from_hex(case["digest"].as_str().ok_or("digest")?).map_err(|x| x.to_string())?;
            let counter = case["counter"].as_u64().ok_or("counter")?;
            let (_, bad, q) = gen_case(digest, counter, count, e);
            Ok((bad.is_some(), format!("indices={:?} {}", q.iter().map(fhex).collect::<Vec<_>>(), bad.unwrap_or_default())))
        }
        Some("points") => {
            let e = case["e"].as_u64().ok_or("e")? as u32;
            let (class, bad) = points_case(e, &point_indices(e));
            Ok((bad.is_some(), format!("{} {}", class, bad.unwrap_or_default())))
        }
        Some("points-seq") => {
            let name = case["order"].as_str().ok_or("order")?;
            let target = case["e"].as_u64().ok_or("e")? as u32;
            let order: Vec<u32> = if name == "descending" { (1..=64u32).rev().collect() } else { (1..=32u32).flat_map(|k| [65 - k, k]).collect() };
            for e in order {
                let (class, bad) = points_case(e, &point_indices_upto(e, 6));
                if e == target {
                    return Ok((bad.is_some(), format!("{} {}", class, bad.unwrap_or_default())));
                }
            }
            Err("exponent not in the sequence".into())
        }
        _ => Err("unknown replay kind".into()),
    }
}
