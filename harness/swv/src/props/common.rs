//! Helpers shared by the proof-level checks (full builds only).
use crate::kit::{panics::{self, Verdict}, Ctx};
use crate::refm::stonefile::{self, ProofFile};
use serde_json::Value;
use starknet_crypto::Felt;
use swiftness_air::{domains::StarkDomains, layout::{GenericLayoutTrait, LayoutTrait}};
use swiftness_stark::{commit::stark_commit, queries::generate_queries, types::StarkProof};
use swiftness_transcript::transcript::Transcript;

/// Run `$body` with `$L` bound to the layout type named by `$name`.
#[macro_export]
macro_rules! with_layout {
    ($name:expr, $L:ident, $body:expr) => {
        match $name {
            "dex" => {
                type $L = swiftness_air::layout::dex::Layout;
                $body
            }
            "recursive" => {
                type $L = swiftness_air::layout::recursive::Layout;
                $body
            }
            "recursive_with_poseidon" => {
                type $L = swiftness_air::layout::recursive_with_poseidon::Layout;
                $body
            }
            "small" => {
                type $L = swiftness_air::layout::small::Layout;
                $body
            }
            "starknet" => {
                type $L = swiftness_air::layout::starknet::Layout;
                $body
            }
            "starknet_with_keccak" => {
                type $L = swiftness_air::layout::starknet_with_keccak::Layout;
                $body
            }
            "dynamic" => {
                type $L = swiftness_air::layout::dynamic::Layout;
                $body
            }
            other => panic!("unknown layout {}", other),
        }
    };
}

pub fn clone_proof(p: &StarkProof) -> StarkProof {
    serde_json::from_value(serde_json::to_value(p).expect("proof serialises")).expect("proof deserialises")
}
pub fn proof_to_value(p: &StarkProof) -> Value {
    serde_json::to_value(p).expect("proof serialises")
}
pub fn proof_from_value(v: &Value) -> Option<StarkProof> {
    serde_json::from_value(v.clone()).ok()
}

/// What the CLI does after parsing: security level = the proof's own.
pub fn own_security(p: &StarkProof) -> Felt {
    p.config.security_bits()
}

pub fn verify_full(p: &StarkProof, layout: &str, security: Felt) -> (Verdict, Option<(Felt, Felt)>) {
    let r = panics::catch(|| with_layout!(layout, L, p.verify::<L>(security)));
    match r {
        Ok(Ok(pair)) => (Verdict::Ok, Some(pair)),
        Ok(Err(e)) => {
            let s = format!("{:?}", e);
            let s: String = s.split(|c| c == '{' || c == '"').next().unwrap_or("").trim().to_string();
            (Verdict::Err(s), None)
        }
        Err(pi) => (Verdict::Panic(pi), None),
    }
}
pub fn verify(p: &StarkProof, layout: &str) -> Verdict {
    verify_full(p, layout, own_security(p)).0
}

/// The in-tree fixture as a 26th honest proof (recursive, keccak_160_lsb, stone5).
pub fn fixture_proof() -> StarkProof {
    StarkProof {
        config: swiftness_stark::fixtures::config::get(),
        public_input: swiftness_air::fixtures::public_input::get(),
        unsent_commitment: swiftness_stark::fixtures::unsent_commitment::get(),
        witness: swiftness_stark::fixtures::witness::get(),
    }
}

pub struct Commit {
    pub digest: Felt,
    pub queries: Vec<Felt>,
    pub interaction_elements: Vec<Felt>,
    pub oods_point: Felt,
    pub oods_coefficients: Vec<Felt>,
    pub fri_eval_points: Vec<Felt>,
}

/// Steps of `StarkProof::verify` up to and including query generation, on the real code.
pub fn commit_phase<L: LayoutTrait + GenericLayoutTrait>(p: &StarkProof) -> Result<Commit, String>
where
    L::InteractionElements: serde::Serialize,
{
    let r = panics::catch(|| {
        let domains = StarkDomains::new(p.config.log_trace_domain_size, p.config.log_n_cosets);
        let digest = p.public_input.get_hash(p.config.n_verifier_friendly_commitment_layers);
        let mut t = Transcript::new(digest);
        let c = stark_commit::<L>(&mut t, &p.public_input, &p.unsent_commitment, &p.config, &domains).map_err(|e| format!("{:?}", e))?;
        let queries = generate_queries(&mut t, p.config.n_queries, domains.eval_domain_size);
        // interaction elements in declaration order: struct serialisation writes fields in
        // order; scan the string form for the hex values
        let text = serde_json::to_string(&c.traces.interaction_elements).map_err(|e| e.to_string())?;
        let mut elems = Vec::new();
        let mut rest = text.as_str();
        while let Some(i) = rest.find(":\"0x") {
            let tail = &rest[i + 2..];
            let end = tail.find('"').ok_or("unterminated string")?;
            elems.push(Felt::from_hex(&tail[..end]).map_err(|e| e.to_string())?);
            rest = &tail[end..];
        }
        Ok::<Commit, String>(Commit {
            digest,
            queries,
            interaction_elements: elems,
            oods_point: c.interaction_after_composition,
            oods_coefficients: c.interaction_after_oods,
            fri_eval_points: c.fri.eval_points,
        })
    });
    match r {
        Ok(x) => x,
        Err(p) => Err(format!("panic {}", p.site())),
    }
}

pub fn derive_queries(pf: &ProofFile) -> Result<Vec<Felt>, String> {
    let l = pf.loaded.meta.layout.as_str();
    with_layout!(l, L, commit_phase::<L>(&pf.loaded.proof)).map(|c| c.queries)
}

/// Honest configurations of the proofs native to this build, as C11 bases.
pub fn honest_config_bases(ctx: &Ctx) -> Vec<crate::props::c11::Base> {
    let mut out = Vec::new();
    for pf in stonefile::native_proofs(ctx) {
        let c = &pf.loaded.proof.config;
        let m = &pf.loaded.meta;
        let cols = match &pf.loaded.proof.public_input.dynamic_params {
            Some(d) => (d.num_columns_first as u64, d.num_columns_second as u64),
            None => {
                let (a, b, _) = stonefile::layout_consts(&m.layout).unwrap();
                (a, b)
            }
        };
        out.push(crate::props::c11::Base {
            name: format!("honest:{}", pf.name),
            cfg: serde_json::to_value(c).unwrap(),
            security: num_bigint::BigUint::from(m.n_queries * m.log_n_cosets as u64 + m.pow_bits),
            cols,
        });
    }
    out
}
