//! C09 - proof of work accepted exactly when the hash has the required zero bits.
use crate::kit::{build_hash, fhex, panics::{verdict, Verdict}, report::Report, Ctx, HashKind};
use crate::refm::sponge::Sponge;
use blake2::Blake2s256;
use rayon::prelude::*;
use serde_json::{json, Value};
use sha3::{Digest, Keccak256};
use starknet_crypto::Felt;
use swiftness_pow::{config::Config as PowConfig, pow::{verify_pow, UnsentCommitment}};
use swiftness_transcript::transcript::Transcript;

fn h(kind: HashKind, data: &[u8]) -> [u8; 32] {
    match kind {
        HashKind::Keccak => Keccak256::digest(data).into(),
        HashKind::Blake2s => Blake2s256::digest(data).into(),
    }
}
/// Number of leading zero bits of H(H(0x0123456789abcded || digest || n) || nonce).
pub fn ref_leading_zeros(kind: HashKind, digest: &[u8; 32], n: u8, nonce: u64) -> u32 {
    let mut d = Vec::with_capacity(41);
    d.extend_from_slice(&[0x01, 0x23, 0x45, 0x67, 0x89, 0xab, 0xcd, 0xed]);
    d.extend_from_slice(digest);
    d.push(n);
    let h0 = h(kind, &d);
    let mut e = Vec::with_capacity(40);
    e.extend_from_slice(&h0);
    e.extend_from_slice(&nonce.to_be_bytes());
    let hh = h(kind, &e);
    let mut z = 0u32;
    for b in hh.iter() {
        if *b == 0 {
            z += 8;
        } else {
            z += b.leading_zeros();
            break;
        }
    }
    z
}

fn digests(ctx: &Ctx) -> Vec<[u8; 32]> {
    let mut r = ctx.rng(0x0900);
    vec![[0u8; 32], crate::kit::p_minus(1).to_bytes_be(), r.felt().to_bytes_be(), r.felt().to_bytes_be()]
}

fn one(kind: HashKind, digest: &[u8; 32], n: u8, nonce: u64) -> (bool, Verdict) {
    let expect = ref_leading_zeros(kind, digest, n, nonce) >= n as u32;
    let d = *digest;
    (expect, verdict(move || verify_pow(d, n, nonce)))
}

pub fn run(ctx: &Ctx) -> Report {
    let (kind, _) = build_hash();
    let kname = if kind == HashKind::Keccak { "keccak" } else { "blake2s" };
    let mut rep = Report::new(
        "C09",
        "exploration",
        "every (difficulty n in 0..=128, digest from a 4-element menu, nonce in 0..2^16 (quick) / 0..2^20 (thorough) plus \
         {2^32, 2^63, 2^64-1} and ground accepting nonces with neighbours) against a bit-level oracle; all 256 u8 \
         difficulties for configuration validation; a triple is non-trivial when its hash has at least n-8 leading zero \
         bits (near the threshold) or is accepted; distinct by (hash,digest,n,nonce)",
    );
    rep.trust("Keccak-256 (sha3) and Blake2s-256 (blake2) as primitives; Poseidon for the transcript clause");
    let ds = digests(ctx);
    let top: u64 = if ctx.quick() { 1 << 16 } else { 1 << 20 };
    let extra_nonces = [1u64 << 32, 1u64 << 63, u64::MAX];
    let ns: Vec<u8> = (0..=128u8).collect();
    // per-n accepted/rejected counters
    let per: Vec<(u8, Report, u64, u64)> = ns
        .par_iter()
        .map(|&n| {
            let mut r = Report::new("C09", "exploration", "");
            let (mut acc, mut rej) = (0u64, 0u64);
            for (di, d) in ds.iter().enumerate() {
                // for large n only the first 2^12 nonces are interesting (all reject); keep the sweep complete up to `top` for n <= 32
                let lim = if n <= 32 { top } else { 1 << 12 };
                let nonces = (0..lim).chain(extra_nonces.iter().cloned());
                for nonce in nonces {
                    let (expect, v) = one(kind, d, n, nonce);
                    if expect {
                        acc += 1
                    } else {
                        rej += 1
                    }
                    let class = format!("{}:{}", if expect { "meets" } else { "below" }, v.short());
                    r.eval(&class);
                    let lz = if expect { n as u32 } else { ref_leading_zeros(kind, d, n, nonce) };
                    if expect || lz + 8 >= n as u32 {
                        r.nontrivial_case(&format!("{}|{}|{}|{}", kname, di, n, nonce));
                    }
                    if v.accepted() != expect {
                        let key = format!("verify_pow:{}:{}", kname, if expect { "rejects-valid" } else { "accepts-invalid" });
                        r.violation(&key, &format!("n={} digest#{} nonce={}: hash has {} leading zero bits, verify_pow -> {}", n, di, nonce,
                            ref_leading_zeros(kind, d, n, nonce), v.class()),
                            json!({"kind": "pow", "digest": fhex(&Felt::from_bytes_be(d)), "n": n, "nonce": nonce.to_string()}));
                    }
                    if nonce < 2 {
                        r.sample(&class, json!({"hash": kname, "digest": fhex(&Felt::from_bytes_be(d)), "n": n, "nonce": nonce, "observed": v.class()}));
                    }
                }
            }
            (n, r, acc, rej)
        })
        .collect();
    let mut per_n = serde_json::Map::new();
    for (n, r, acc, rej) in per {
        rep.merge(r);
        per_n.insert(n.to_string(), json!([acc, rej]));
    }
    rep.extra.insert("per_n_accepting_rejecting".into(), Value::Object(per_n));
    // ground accepting nonces at and around the configuration minimum
    let max_grind: u8 = if ctx.quick() { 20 } else { 24 };
    let ground: Vec<Report> = (17..=max_grind)
        .into_par_iter()
        .map(|n| {
            let mut r = Report::new("C09", "exploration", "");
            for (di, d) in ds.iter().enumerate() {
                let mut nonce = top;
                let found = loop {
                    if ref_leading_zeros(kind, d, n, nonce) >= n as u32 {
                        break Some(nonce);
                    }
                    nonce += 1;
                    if nonce > top + (1u64 << 30) {
                        break None;
                    }
                };
                if let Some(g) = found {
                    for nn in [g.wrapping_sub(1), g, g + 1] {
                        // the same nonce under difficulty n-1, n, n+1 as well
                        for dn in [n - 1, n, n + 1] {
                            let (expect, v) = one(kind, d, dn, nn);
                            let class = format!("ground:{}:{}", if expect { "meets" } else { "below" }, v.short());
                            r.eval(&class);
                            r.nontrivial_case(&format!("{}|{}|{}|{}", kname, di, dn, nn));
                            r.sample(&class, json!({"hash": kname, "digest#": di, "n": dn, "nonce": nn, "observed": v.class()}));
                            if v.accepted() != expect {
                                let key = format!("verify_pow:{}:{}", kname, if expect { "rejects-valid" } else { "accepts-invalid" });
                                r.violation(&key, &format!("ground nonce: n={} digest#{} nonce={} -> {}", dn, di, nn, v.class()),
                                    json!({"kind": "pow", "digest": fhex(&Felt::from_bytes_be(d)), "n": dn, "nonce": nn.to_string()}));
                            }
                        }
                    }
                    // transcript clause: on acceptance the nonce (as u64) is absorbed
                    let digest_felt = Felt::from_bytes_be(d);
                    if digest_felt.to_bytes_be() == *d {
                        let mut t = Transcript::new(digest_felt);
                        let cfg = PowConfig { n_bits: n };
                        let uc = UnsentCommitment { nonce: g };
                        let v = verdict(|| uc.commit(&mut t, &cfg));
                        let mut s = Sponge::new(digest_felt);
                        s.absorb(&[Felt::from(g)]);
                        let same = *t.digest() == s.digest && *t.counter() == Felt::ZERO;
                        let class = format!("commit:{}:{}", v.short(), if same { "absorbed" } else { "state-differs" });
                        r.eval(&class);
                        r.sample(&class, json!({"hash": kname, "digest#": di, "n": n, "nonce": g, "transcript_digest": fhex(t.digest())}));
                        if !v.accepted() || !same {
                            r.violation(&format!("pow_commit:{}:{}", kname, class),
                                &format!("UnsentCommitment::commit with a valid nonce: {} / transcript {}", v.class(), if same { "ok" } else { "does not equal absorb_u64(nonce)" }),
                                json!({"kind": "pow_commit", "digest": fhex(&digest_felt), "n": n, "nonce": g.to_string()}));
                        }
                        // and a rejected nonce leaves an error
                        let mut t2 = Transcript::new(digest_felt);
                        let bad = UnsentCommitment { nonce: g ^ 1 };
                        let exp2 = ref_leading_zeros(kind, d, n, g ^ 1) >= n as u32;
                        let v2 = verdict(|| bad.commit(&mut t2, &cfg));
                        r.eval(&format!("commit-neighbour:{}", v2.short()));
                        if v2.accepted() != exp2 {
                            r.violation(&format!("pow_commit:{}:neighbour", kname), "commit verdict differs from oracle for nonce^1",
                                json!({"kind": "pow_commit", "digest": fhex(&digest_felt), "n": n, "nonce": (g ^ 1).to_string()}));
                        }
                    }
                } else {
                    r.cap(&format!("no accepting nonce found for n={} digest#{} within 2^30 tries", n, di));
                }
            }
            r
        })
        .collect();
    for g in ground {
        rep.merge(g);
    }
    // ---- word boundary: a hash with at least 32 but fewer than n leading zero bits must be rejected at a declared
    // difficulty n > 32 (a count that mis-steps through 32-bit words would accept it).  Such a nonce costs 2^32
    // hashes: mined in the thorough tier; the quick tier re-uses the mined constants below after re-validating
    // them with the oracle.
    const MINED: [(&str, u8, u64); 4] = [("keccak", 40, 952432759), ("keccak", 50, 5028365117), ("blake2s", 40, 4140367947), ("blake2s", 50, 2373305377)];
    let zero_digest = [0u8; 32];
    let mut witnesses: Vec<(u8, u64)> = Vec::new();
    for (k, n, nonce) in MINED {
        if k == kname && nonce != 0 && ref_leading_zeros(kind, &zero_digest, n, nonce) >= 32 {
            witnesses.push((n, nonce));
        }
    }
    if !ctx.quick() {
        for n in [40u8, 50] {
            if witnesses.iter().any(|(m, _)| *m == n) {
                continue;
            }
            let chunk = 1u64 << 22;
            let mut start = 0u64;
            let found = loop {
                if let Some(x) = (start..start + chunk).into_par_iter().find_any(|nonce| ref_leading_zeros(kind, &zero_digest, n, *nonce) >= 32) {
                    break Some(x);
                }
                start += chunk;
                if start >= (1u64 << 35) {
                    break None;
                }
            };
            match found {
                Some(x) => witnesses.push((n, x)),
                None => rep.cap(&format!("no nonce with 32 leading zero bits found for n={} within 2^35 tries", n)),
            }
        }
    }
    rep.extra.insert("mined_32_zero_bit_nonces".into(), json!(witnesses.iter().map(|(n, x)| json!({"hash": kname, "n": n, "nonce": x.to_string(), "zero_bits": ref_leading_zeros(kind, &zero_digest, *n, *x)})).collect::<Vec<_>>()));
    for (n, nonce) in &witnesses {
        let (expect, v) = one(kind, &zero_digest, *n, *nonce);
        let class = format!("word-boundary:{}:{}", if expect { "meets" } else { "below" }, v.short());
        rep.eval(&class);
        rep.nontrivial_case(&format!("{}|wordboundary|{}|{}", kname, n, nonce));
        if v.accepted() != expect {
            rep.violation(&format!("verify_pow:{}:{}", kname, if expect { "rejects-valid" } else { "accepts-invalid" }),
                &format!("n={} zero digest nonce={} ({} leading zero bits) -> {}", n, nonce, ref_leading_zeros(kind, &zero_digest, *n, *nonce), v.class()),
                json!({"kind": "pow", "digest": fhex(&Felt::ZERO), "n": n, "nonce": nonce.to_string()}));
        }
    }
    if witnesses.is_empty() {
        rep.cap("quick tier: no mined 32-zero-bit nonce embedded for this hash; the word-boundary case runs in the thorough tier");
    }
    // the nonce is absorbed at EVERY difficulty, including the small ones validation would refuse
    for n in 0..=16u8 {
        for (di, d) in ds.iter().enumerate() {
            let digest_felt = Felt::from_bytes_be(d);
            if digest_felt.to_bytes_be() != *d {
                continue;
            }
            let nonce = match (0..(1u64 << 18)).find(|x| ref_leading_zeros(kind, d, n, *x) >= n as u32) {
                Some(x) => x,
                None => continue,
            };
            let mut t = Transcript::new(digest_felt);
            let v = verdict(|| UnsentCommitment { nonce }.commit(&mut t, &PowConfig { n_bits: n }));
            let mut s = Sponge::new(digest_felt);
            s.absorb(&[Felt::from(nonce)]);
            let same = *t.digest() == s.digest && *t.counter() == Felt::ZERO;
            let class = format!("commit-low-difficulty:{}:{}", v.short(), if same { "absorbed" } else { "state-differs" });
            rep.eval(&class);
            rep.nontrivial_case(&format!("commit|{}|{}|{}", kname, di, n));
            if !v.accepted() || !same {
                rep.violation(&format!("pow_commit:{}:{}", kname, class), &format!("UnsentCommitment::commit at difficulty {} with a valid nonce {}: {} / transcript {}", n, nonce, v.class(), if same { "ok" } else { "does not equal absorb_u64(nonce)" }),
                    json!({"kind": "pow_commit", "digest": fhex(&digest_felt), "n": n, "nonce": nonce.to_string()}));
            }
        }
    }
    // configuration validation: all 256 difficulties
    for n in 0..=255u8 {
        let v = verdict(|| PowConfig { n_bits: n }.validate());
        let expect = (20..=50).contains(&n);
        let class = format!("validate:{}", v.short());
        rep.eval(&class);
        rep.nontrivial_case(&format!("validate|{}", n));
        if v.accepted() != expect {
            rep.violation(&format!("pow_config_validate:{}", if expect { "rejects-valid" } else { "accepts-invalid" }),
                &format!("pow::Config{{n_bits:{}}}.validate() -> {}", n, v.class()), json!({"kind": "pow_validate", "n": n}));
        }
    }
    rep.bound_completed = format!("n 0..=128 complete; nonces 0..{} for n<=32, 0..4096 above; ground nonces for n in 17..={}; validate 0..=255 complete", top, max_grind);
    rep.extra.insert("pow_hash".into(), json!(kname));
    rep
}

pub fn replay(_ctx: &Ctx, case: &Value) -> super::ReplayResult {
    let (kind, _) = build_hash();
    match case["kind"].as_str() {
        Some("pow") => {
            let d = Felt::from_hex(case["digest"].as_str().ok_or("digest")?).map_err(|e| e.to_string())?.to_bytes_be();
            let n = case["n"].as_u64().ok_or("n")? as u8;
            let nonce: u64 = case["nonce"].as_str().ok_or("nonce")?.parse().map_err(|_| "nonce")?;
            let (expect, v) = one(kind, &d, n, nonce);
            Ok((v.accepted() != expect, format!("expected_accept={} observed={}", expect, v.class())))
        }
        Some("pow_validate") => {
            let n = case["n"].as_u64().ok_or("n")? as u8;
            let v = verdict(|| PowConfig { n_bits: n }.validate());
            Ok((v.accepted() != (20..=50).contains(&n), format!("validate({}) -> {}", n, v.class())))
        }
        Some("pow_commit") => {
            let df = Felt::from_hex(case["digest"].as_str().ok_or("digest")?).map_err(|e| e.to_string())?;
            let n = case["n"].as_u64().ok_or("n")? as u8;
            let nonce: u64 = case["nonce"].as_str().ok_or("nonce")?.parse().map_err(|_| "nonce")?;
            let expect = ref_leading_zeros(kind, &df.to_bytes_be(), n, nonce) >= n as u32;
            let mut t = Transcript::new(df);
            let v = verdict(|| UnsentCommitment { nonce }.commit(&mut t, &PowConfig { n_bits: n }));
            let mut s = Sponge::new(df);
            s.absorb(&[Felt::from(nonce)]);
            let same = *t.digest() == s.digest;
            Ok((v.accepted() != expect || (expect && !same), format!("expected_accept={} observed={} absorbed={}", expect, v.class(), same)))
        }
        _ => Err("unknown replay kind".into()),
    }
}
