//! C06 - FRI accepts every polynomial below the bound; folding is polynomial folding.
use crate::kit::{explore::subsets, f2b, fhex, fu, panics::{self, verdict, Verdict}, report::Report, Ctx};
use crate::refm::{fri::{self, Opening, Params, Prover}, merkle::Variant, sponge::Sponge, zint};
use crate::props::c05::table_commitment;
use num_bigint::BigUint;
use rayon::prelude::*;
use serde_json::{json, Value};
use starknet_crypto::Felt;
use swiftness_commitment::{table::{config::Config as TableConfig, types::Witness as TableWitness}, vector::{config::Config as VecConfig, types::Witness as VecWitness}};
use swiftness_fri::{
    config::Config as FriConfig,
    formula::fri_formula,
    fri::{fri_commit, fri_verify},
    group::get_fri_group,
    layer::{compute_next_layer, FriLayerComputationParams, FriLayerQuery},
    types::{Commitment as FriCommitment, Decommitment as FriDecommitment, LayerWitness, UnsentCommitment as FriUnsent, Witness as FriWitness},
};
use swiftness_transcript::transcript::Transcript;

pub fn fri_config(p: &Params) -> FriConfig {
    let mut inner = Vec::new();
    for t in 0..p.n_layers() - 1 {
        let s = p.steps[t + 1];
        inner.push(TableConfig {
            n_columns: fu(1u64 << s),
            vector: VecConfig { height: fu((p.layer_log_size(t) - s) as u64), n_verifier_friendly_commitment_layers: fu(p.n_friendly) },
        });
    }
    FriConfig {
        log_input_size: fu(p.log_input_size() as u64),
        n_layers: fu(p.n_layers() as u64),
        inner_layers: inner,
        fri_step_sizes: p.steps.iter().map(|&s| fu(s as u64)).collect(),
        log_last_layer_degree_bound: fu(p.last as u64),
    }
}

/// Everything `fri_verify` consumes, as plain mutable data (so that corruptions are easy).
#[derive(Clone, Debug)]
pub struct Instance {
    pub params: Params,
    pub queries: Vec<Felt>,
    pub values: Vec<Felt>,
    pub points: Vec<Felt>,
    pub roots: Vec<Felt>,
    pub eval_points: Vec<Felt>,
    pub last: Vec<Felt>,
    pub leaves: Vec<Vec<Felt>>,
    pub auths: Vec<Vec<Felt>>,
}
impl Instance {
    pub fn from(prover: &Prover, op: &Opening) -> Instance {
        Instance {
            params: prover.params.clone(),
            queries: op.queries.iter().map(|&q| fu(q as u64)).collect(),
            values: op.values.clone(),
            points: op.points.clone(),
            roots: prover.commitments(),
            eval_points: prover.eval_points.clone(),
            last: prover.last_layer(),
            leaves: op.layers.iter().map(|l| l.leaves.clone()).collect(),
            auths: op.layers.iter().map(|l| l.auth.clone()).collect(),
        }
    }
    pub fn commitment(&self) -> FriCommitment {
        let cfg = fri_config(&self.params);
        let inner = cfg
            .inner_layers
            .iter()
            .zip(self.roots.iter())
            .map(|(c, r)| {
                let h: u64 = f2b(&c.vector.height).try_into().unwrap();
                table_commitment(*r, c.n_columns, h, self.params.n_friendly)
            })
            .collect();
        FriCommitment { config: cfg, inner_layers: inner, eval_points: self.eval_points.clone(), last_layer_coefficients: self.last.clone() }
    }
    pub fn verify(&self) -> Verdict {
        let c = self.commitment();
        let d = FriDecommitment { values: self.values.clone(), points: self.points.clone() };
        let w = FriWitness {
            layers: self
                .leaves
                .iter()
                .zip(self.auths.iter())
                .map(|(l, a)| LayerWitness { leaves: l.clone(), table_witness: TableWitness { vector: VecWitness { authentications: a.clone() } } })
                .collect(),
        };
        let q = self.queries.clone();
        // the verifier's types travel as JSON (wasm binding, CLI): an honest witness must survive the round trip
        let w = match serde_json::to_value(&w).ok().and_then(|v| serde_json::from_value::<FriWitness>(v).ok()) {
            Some(back) if back == w => back,
            Some(_) => return Verdict::Err("SerdeRoundTripChangesTheWitness".into()),
            None => return Verdict::Err("SerdeRoundTripFails".into()),
        };
        verdict(move || fri_verify(&q, c, d, w))
    }
}

/// Run the real `fri_commit` on the prover's messages; Ok(eval points, final transcript state).
pub fn real_commit(p: &Params, roots: &[Felt], last: &[Felt], init: Felt) -> Result<(Vec<Felt>, Felt, Felt), panics::PanicInfo> {
    real_commit_full(p, roots, last, init).map(|(c, d, k)| (c.eval_points, d, k))
}
/// ... and the whole commitment `fri_commit` returns (what `fri_verify` is given in the verifier).
pub fn real_commit_full(p: &Params, roots: &[Felt], last: &[Felt], init: Felt) -> Result<(FriCommitment, Felt, Felt), panics::PanicInfo> {
    let cfg = fri_config(p);
    let un = FriUnsent { inner_layers: roots.to_vec(), last_layer_coefficients: last.to_vec() };
    panics::catch(move || {
        let mut t = Transcript::new(init);
        let c = fri_commit(&mut t, un, cfg);
        (c, *t.digest(), *t.counter())
    })
}

#[derive(Clone, Debug)]
pub struct Spec {
    pub params: Params,
    pub poly: usize,
    pub seed: usize,
}
pub const POLY_NAMES: [&str; 4] = ["zero", "x^(D-1)", "dense-a", "dense-b"];

pub fn poly_for(ctx: &Ctx, params: &Params, which: usize, extra_degree: usize) -> Vec<Felt> {
    let d = (1usize << params.log_degree()) + extra_degree;
    match which {
        0 => vec![Felt::ZERO; d],
        1 => {
            let mut v = vec![Felt::ZERO; d];
            v[d - 1] = Felt::ONE;
            v
        }
        k => ctx.rng(0x0600 + k as u64 * 977 + params.log_degree() as u64).felts(d),
    }
}
pub fn seed_digest(ctx: &Ctx, which: usize) -> Felt {
    match which {
        0 => Felt::ZERO,
        1 => Felt::ONE,
        _ => ctx.rng(0x0601).felt(),
    }
}

/// All step lists (leading 0 included) with `layers` in 2..=max_layers, steps 1..=4,
/// and every (last, blowup) such that log_input_size <= max_n.
pub fn configs(max_layers: usize, max_n: u32, lasts: &[u32], blowups: &[u32]) -> Vec<(Vec<u32>, u32, u32)> {
    let mut lists: Vec<Vec<u32>> = vec![vec![0]];
    let mut out = Vec::new();
    for _ in 1..max_layers {
        let mut next = Vec::new();
        for l in &lists {
            for s in 1..=4u32 {
                let mut n = l.clone();
                n.push(s);
                if n.iter().sum::<u32>() < max_n {
                    next.push(n);
                }
            }
        }
        for l in &next {
            for &last in lasts {
                for &c in blowups {
                    if l.iter().sum::<u32>() + last + c <= max_n {
                        out.push((l.clone(), last, c));
                    }
                }
            }
        }
        lists = next;
    }
    out
}

pub fn friendly_menu(n: u32) -> Vec<u64> {
    let mut v = vec![0u64, (n / 2) as u64, (n + 2) as u64];
    v.dedup();
    v
}

/// Query sets for an instance: all subsets of size <= 2 on small domains, a structural
/// family elsewhere.
pub fn query_sets(params: &Params, all_pairs_up_to: u32, triples_up_to: u32) -> Vec<Vec<usize>> {
    let n = params.log_input_size();
    let size = 1usize << n;
    let mut out: Vec<Vec<usize>> = Vec::new();
    if n <= triples_up_to {
        out = subsets(size, 3);
    } else if n <= all_pairs_up_to {
        out = subsets(size, 2);
    }
    let c0 = 1usize << params.steps[1];
    let mut fam: Vec<Vec<usize>> = vec![
        vec![0],
        vec![size - 1],
        vec![size / 2],
        vec![0, size - 1],
        (0..c0).collect(),                       // one coset, every element queried
        (0..c0).filter(|i| i % 2 == 1).collect(), // same coset, odd positions only
        vec![c0 - 1, c0],                        // neighbours in different cosets
        (0..size).step_by(c0).take(8).collect(), // one per coset
        (size - c0..size).collect(),             // the last coset, complete
    ];
    if size >= 4 {
        fam.push(vec![1, 2, size - 2]);
    }
    // queries that share a coset only in a later layer
    let c01 = 1usize << (params.steps[1] + params.steps.get(2).cloned().unwrap_or(0));
    if c01 < size {
        fam.push(vec![0, c01 - 1]);
        fam.push(vec![c0, c01]);
    }
    if size <= 64 {
        fam.push((0..size).collect()); // the full domain
    }
    for mut f in fam {
        f.sort();
        f.dedup();
        if !f.is_empty() && !out.contains(&f) {
            out.push(f);
        }
    }
    out
}

pub fn spec_json(s: &Spec, variant: Variant) -> Value {
    json!({"variant": variant.name(), "steps": s.params.steps, "last": s.params.last, "blowup": s.params.blowup,
           "n_friendly": s.params.n_friendly, "poly": POLY_NAMES[s.poly], "seed": s.seed})
}
pub fn spec_from_json(v: &Value) -> Option<Spec> {
    Some(Spec {
        params: Params {
            steps: v["steps"].as_array()?.iter().map(|x| x.as_u64().unwrap() as u32).collect(),
            last: v["last"].as_u64()? as u32,
            blowup: v["blowup"].as_u64()? as u32,
            n_friendly: v["n_friendly"].as_u64()?,
        },
        poly: POLY_NAMES.iter().position(|n| Some(*n) == v["poly"].as_str())?,
        seed: v["seed"].as_u64()? as usize,
    })
}

pub fn specs(ctx: &Ctx, quick: bool) -> Vec<Spec> {
    let cfgs = if quick { configs(4, 7, &[0, 1, 2], &[1, 2]) } else { configs(6, 10, &[0, 1, 3], &[1, 2, 4]) };
    let mut out = Vec::new();
    for (steps, last, c) in cfgs {
        let n = steps.iter().sum::<u32>() + last + c;
        for nf in friendly_menu(n) {
            let params = Params { steps: steps.clone(), last, blowup: c, n_friendly: nf };
            for poly in 0..4 {
                // the friendly boundary and the seed only matter for hashing: cross them sparsely
                let seeds: Vec<usize> = if poly == 2 { vec![0, 1, 2] } else { vec![2] };
                for seed in seeds {
                    if quick && poly != 2 && nf != 0 && n > 5 {
                        continue;
                    }
                    out.push(Spec { params: params.clone(), poly, seed });
                }
            }
        }
    }
    let _ = ctx;
    out
}

/// Commit with the reference prover and cross-check the real `fri_commit`.
pub fn commit_checked(ctx: &Ctx, variant: Variant, s: &Spec, extra_degree: usize) -> (Prover, Option<String>) {
    let poly = poly_for(ctx, &s.params, s.poly, extra_degree);
    let init = seed_digest(ctx, s.seed);
    let mut sp = Sponge::new(init);
    let prover = Prover::commit(&s.params, variant, &poly, &mut sp);
    let bad = match real_commit_full(&s.params, &prover.commitments(), &prover.last_layer(), init) {
        Ok((full, d, c)) => {
            let eps = full.eval_points.clone();
            // the commitment handed on to fri_verify must be exactly the messages received
            let expect = Instance { params: s.params.clone(), queries: vec![], values: vec![], points: vec![], roots: prover.commitments(),
                eval_points: prover.eval_points.clone(), last: prover.last_layer(), leaves: vec![], auths: vec![] }.commitment();
            if serde_json::to_value(&full).ok() != serde_json::to_value(&expect).ok() {
                Some("the commitment returned by fri_commit is not the configuration + layer commitments + last-layer coefficients it was given".to_string())
            } else if eps != prover.eval_points {
                Some("fri_commit's evaluation points differ from the reference sponge's".to_string())
            } else if d != sp.digest || c != fu(sp.counter) {
                Some("transcript state after fri_commit differs from the reference sponge's".to_string())
            } else {
                None
            }
        }
        Err(p) => Some(format!("fri_commit panicked on an honest commitment: {}", p.site())),
    };
    (prover, bad)
}

// ------------------------------------------------------------------ fold identity
fn fold_identity(ctx: &Ctx, rep: &mut Report) {
    // group
    let g = get_fri_group();
    let w16 = zint::root_of_unity(4);
    let mut ok = g.len() == 16;
    for (j, x) in g.iter().enumerate() {
        let want = zint::pow(&w16, &BigUint::from(zint::bitrev(j as u64, 4)));
        if f2b(x) != want {
            ok = false;
        }
    }
    rep.eval(if ok { "group-ok" } else { "group-differs" });
    if !ok {
        rep.violation("fri_group", "get_fri_group() is not the bit-reversed order-16 subgroup generated by 3^((p-1)/16)", json!({"kind": "group"}));
    }
    let dom = fri::domain(8);
    for k in 1..=4u32 {
        let m = 1usize << k;
        let mut rng = ctx.rng(0x0610 + k as u64);
        let challenges: Vec<Felt> = (0..m + 1).map(|i| if i == 0 { Felt::ZERO } else if i == 1 { Felt::ONE } else { rng.felt() }).collect();
        // every coset of the size-2^8 domain: x0 = dom[r*m], elements x0*gamma_j = dom[r*m + j]
        let mut linear_ok = true;
        let mut basis_ok = true;
        let mut n_eval = 0u64;
        for r in 0..(256 / m) {
            let x0 = dom[r * m];
            let x_inv = x0.inverse().unwrap();
            let y = x0.pow(m as u128);
            for b in &challenges {
                // monomial basis x^d, d < 4 * 2^k (four periods)
                let mut unit_results = Vec::new();
                for d in 0..4 * m {
                    let vals: Vec<Felt> = (0..m).map(|j| dom[r * m + j].pow(d as u128)).collect();
                    let got = match panics::catch(|| fri_formula(vals, *b, x_inv, fu(m as u64))) {
                        Ok(Ok(g)) => g,
                        _ => {
                            basis_ok = false;
                            continue;
                        }
                    };
                    n_eval += 1;
                    // P = x^d = x^j * (x^m)^q with d = q*m + j  =>  P_j(y) = y^q, others 0
                    let (q, j) = (d / m, d % m);
                    let want = Felt::from(m as u64) * b.pow(j as u128) * y.pow(q as u128);
                    if got != want {
                        basis_ok = false;
                    }
                    if d < m {
                        unit_results.push(got);
                    }
                }
                // linearity on unit vectors of the coset values and their sum
                let mut sum = Felt::ZERO;
                for j in 0..m {
                    let mut e = vec![Felt::ZERO; m];
                    e[j] = Felt::ONE;
                    match panics::catch(|| fri_formula(e, *b, x_inv, fu(m as u64))) {
                        Ok(Ok(g)) => sum += g,
                        _ => linear_ok = false,
                    }
                    n_eval += 1;
                }
                let ones = vec![Felt::ONE; m];
                match panics::catch(|| fri_formula(ones, *b, x_inv, fu(m as u64))) {
                    Ok(Ok(g)) if g == sum => {}
                    _ => linear_ok = false,
                }
                n_eval += 1;
            }
        }
        rep.evals(if basis_ok && linear_ok { "fold-identity-ok" } else { "fold-identity-differs" }, n_eval);
        rep.nontrivial_case(&format!("fold-identity|{}", k));
        if !basis_ok || !linear_ok {
            rep.violation(&format!("fri_formula:coset{}:{}", m, if basis_ok { "not-linear" } else { "not-polynomial-folding" }),
                &format!("fri_formula for coset size {} is not 2^k * sum_j b^j P_j(y) on the monomial basis / not linear", m), json!({"kind": "fold", "k": k}));
        }
    }
    // x_inv propagation and next index through compute_next_layer, whichever element of the coset carries the query
    for k in 1..=4u32 {
        let m = 1usize << k;
        let mut ok = true;
        let mut n_eval = 0u64;
        let b = ctx.rng(0x0620).felt();
        for r in 0..(256 / m) {
            for j in 0..m {
                let idx = r * m + j;
                let x = dom[idx];
                let mut queries = vec![FriLayerQuery { index: fu(idx as u64), y_value: fu(5), x_inv_value: x.inverse().unwrap() }];
                let mut sib: Vec<Felt> = (0..m - 1).map(|i| fu(100 + i as u64)).collect();
                let params = FriLayerComputationParams { coset_size: fu(m as u64), fri_group: get_fri_group(), eval_point: b };
                match panics::catch(|| compute_next_layer(&mut queries, &mut sib, params)) {
                    Ok(Ok((next, idxs, ys))) => {
                        n_eval += 1;
                        let want_x_inv = dom[r * m].pow(m as u128).inverse().unwrap();
                        if next.len() != 1 || next[0].index != fu(r as u64) || next[0].x_inv_value != want_x_inv || idxs != vec![fu(r as u64)] || ys.len() != m || ys[j] != fu(5) {
                            ok = false;
                        }
                    }
                    _ => ok = false,
                }
            }
        }
        rep.evals(if ok { "next-layer-point-ok" } else { "next-layer-point-differs" }, n_eval);
        rep.nontrivial_case(&format!("x-inv|{}", k));
        if !ok {
            rep.violation(&format!("compute_next_layer:coset{}:x_inv-or-index", m), "next query index / x_inv differs from the model's next point for some position in the coset", json!({"kind": "xinv", "k": k}));
        }
    }
}

pub fn run(ctx: &Ctx) -> Report {
    let variant = Variant::of_build();
    let mut rep = Report::new(
        "C06",
        "exploration",
        "every FRI configuration within the tier bound (step lists with first step 0 and steps 1..=4, last-layer bound, blow-up, \
         friendly boundary {0, mid, all}) x polynomials {zero, x^(D-1), two dense} x transcript seeds x query sets (all subsets of \
         size<=2 on small domains, a structural family elsewhere: single, same coset, whole coset, one per coset, first/last, \
         full domain); the instance produced by the coefficient-space reference prover must pass the real fri_commit (same \
         evaluation points) and fri_verify. Fold identity: fri_formula on the monomial basis over 4 periods x 2^k+1 challenges x \
         every coset of a 2^8 domain (degree argument => identity for all b, x). Non-trivial: query set touches >= 1 coset \
         with a sibling or >= 2 queries; distinct by (config, poly, seed, query set)",
    );
    rep.trust("Poseidon/Keccak/Blake2s primitives; Felt arithmetic (starknet-types-core) inside the reference prover");
    fold_identity(ctx, &mut rep);
    let quick = ctx.quick();
    let sp = specs(ctx, quick);
    let (pairs_up_to, triples_up_to) = if quick { (5, 3) } else { (7, 5) };
    let parts: Vec<Report> = sp
        .par_iter()
        .map(|s| {
            let mut r = Report::new("C06", "exploration", "");
            let (prover, bad) = commit_checked(ctx, variant, s, 0);
            r.eval(if bad.is_none() { "commit-ok" } else { "commit-differs" });
            if let Some(b) = bad {
                r.violation(&format!("fri_commit:{}", b.split(' ').take(4).collect::<Vec<_>>().join("-")), &format!("{} ({})", b, spec_json(s, variant)),
                    json!({"kind": "fri", "spec": spec_json(s, variant), "queries": [0]}));
                return r;
            }
            // dense polynomials get the full query-set menu, the others the structural family
            let qsets = if s.poly >= 2 && s.seed == 2 { query_sets(&s.params, pairs_up_to, triples_up_to) } else { query_sets(&s.params, 0, 0) };
            for qs in qsets {
                let op = prover.open(&qs);
                let inst = Instance::from(&prover, &op);
                let v = inst.verify();
                let class = format!("honest:{}", v.short());
                r.eval(&class);
                r.nontrivial_case(&format!("{}|{:?}", spec_json(s, variant), qs));
                r.sample(&format!("{}:{}", class, s.params.steps.len()), json!({"spec": spec_json(s, variant), "queries": qs, "observed": v.class()}));
                if !v.accepted() {
                    let shape = if qs.len() == 1 { "single-query" } else if qs.len() == (1usize << s.params.steps[1]) && qs[qs.len() - 1] - qs[0] + 1 == qs.len() { "whole-coset" } else { "multi-query" };
                    r.violation(&format!("fri_verify:honest-rejected:{}:{}", shape, v.class()),
                        &format!("honest instance rejected: {} queries={:?} -> {}", spec_json(s, variant), qs, v.class()),
                        json!({"kind": "fri", "spec": spec_json(s, variant), "queries": qs}));
                }
            }
            r
        })
        .collect();
    for p in parts {
        rep.merge(p);
    }
    // last layers of 2^9 .. 2^11 coefficients (quick) / up to 2^13 (thorough): more than any byte-sized counter holds
    {
        let big_last: Vec<(Vec<u32>, u32, u32)> = if quick { vec![(vec![0, 1], 9, 1), (vec![0, 2], 10, 1), (vec![0, 1], 11, 1)] } else { vec![(vec![0, 1], 9, 1), (vec![0, 2], 10, 1), (vec![0, 1], 11, 1), (vec![0, 1, 1], 12, 1), (vec![0, 1], 13, 1), (vec![0, 3], 8, 2)] };
        for (steps, last, c) in big_last {
            let params = Params { steps, last, blowup: c, n_friendly: 3 };
            for poly in [1usize, 2] {
                let s = Spec { params: params.clone(), poly, seed: 2 };
                let (prover, bad) = commit_checked(ctx, variant, &s, 0);
                if let Some(b) = bad {
                    rep.violation("fri_commit:large-last-layer", &b, json!({"kind": "fri", "spec": spec_json(&s, variant), "queries": [0]}));
                    continue;
                }
                // besides the structural family: many queries that stay distinct down to the last layer (63, 64, 65,
                // 128, 129, 200, 300 points of the last layer, and the whole domain) - batch sizes of any per-query
                // work in the last-layer check are crossed
                let mut qsets = query_sets(&s.params, 0, 0);
                {
                    let size = 1usize << s.params.log_input_size();
                    let fold: usize = 1usize << s.params.steps.iter().sum::<u32>();
                    let last_points = size / fold;
                    for count in [63usize, 64, 65, 128, 129, 200, 300] {
                        if count <= last_points {
                            // one query per last-layer point, spread over the domain, at varying offsets inside the coset
                            qsets.push((0..count).map(|i| (i * (last_points / count)) * fold + (i % fold)).collect());
                        }
                    }
                    if poly == 2 && size <= 1 << 11 {
                        qsets.push((0..size).collect());
                    }
                }
                for qs in qsets {
                    let inst = Instance::from(&prover, &prover.open(&qs));
                    let v = inst.verify();
                    rep.eval(&format!("honest-large-last-layer:{}", v.short()));
                    rep.nontrivial_case(&format!("{}|{:?}", spec_json(&s, variant), qs));
                    if !v.accepted() {
                        rep.violation(&format!("fri_verify:honest-rejected:large-last-layer:{}", v.class()), &format!("{} queries={:?}", spec_json(&s, variant), qs),
                            json!({"kind": "fri", "spec": spec_json(&s, variant), "queries": qs}));
                    }
                }
            }
        }
    }
    // extremes of the configuration grammar with a tiny polynomial (thorough)
    if !quick {
        for (steps, last, c) in [(vec![0u32, 1, 1, 1, 1, 1, 1, 1, 1, 1, 1, 1, 1, 1, 1], 0u32, 1u32), (vec![0, 4, 4, 4], 0, 1), (vec![0, 3, 4], 5, 2)] {
            let params = Params { steps, last, blowup: c, n_friendly: 3 };
            if params.log_input_size() > 15 {
                continue;
            }
            let s = Spec { params, poly: 1, seed: 2 };
            let (prover, bad) = commit_checked(ctx, variant, &s, 0);
            if let Some(b) = bad {
                rep.violation("fri_commit:extreme", &b, json!({"kind": "fri", "spec": spec_json(&s, variant), "queries": [0]}));
                continue;
            }
            for qs in query_sets(&s.params, 0, 0) {
                let inst = Instance::from(&prover, &prover.open(&qs));
                let v = inst.verify();
                rep.eval(&format!("honest-extreme:{}", v.short()));
                rep.nontrivial_case(&format!("{}|{:?}", spec_json(&s, variant), qs));
                if !v.accepted() {
                    rep.violation(&format!("fri_verify:honest-rejected:extreme:{}", v.class()), &format!("{} queries={:?}", spec_json(&s, variant), qs),
                        json!({"kind": "fri", "spec": spec_json(&s, variant), "queries": qs}));
                }
            }
        }
    }
    rep.bound_completed = format!("{} (config, poly, seed) instances; log_input_size <= {}; all query subsets of size<=2 up to 2^{}, size<=3 up to 2^{}",
        sp.len(), if quick { 7 } else { 10 }, pairs_up_to, triples_up_to);
    rep.extra.insert("variant".into(), json!(variant.name()));
    rep
}

pub fn replay(ctx: &Ctx, case: &Value) -> super::ReplayResult {
    let variant = Variant::of_build();
    match case["kind"].as_str() {
        Some("fri") => {
            let s = spec_from_json(&case["spec"]).ok_or("bad spec")?;
            let qs: Vec<usize> = case["queries"].as_array().ok_or("queries")?.iter().map(|x| x.as_u64().unwrap() as usize).collect();
            let (prover, bad) = commit_checked(ctx, variant, &s, 0);
            if let Some(b) = bad {
                return Ok((true, b));
            }
            let inst = Instance::from(&prover, &prover.open(&qs));
            let v = inst.verify();
            Ok((!v.accepted(), format!("honest instance -> {} (last layer {:?})", v.class(), inst.last.iter().map(fhex).collect::<Vec<_>>())))
        }
        Some("group") | Some("fold") | Some("xinv") => {
            let mut r = Report::new("C06", "exploration", "");
            fold_identity(ctx, &mut r);
            Ok((!r.violations.is_empty(), format!("{:?}", r.violations.keys().collect::<Vec<_>>())))
        }
        _ => Err("unknown replay kind".into()),
    }
}
