//! C12 - evaluation and trace domains have generators of exactly the right order.
//! Complete enumeration of all (t, c) with t + c in 0..=192.
use crate::kit::{f2b, fhex, fu, panics, pow2, report::Report, Ctx};
use crate::refm::zint;
use num_bigint::BigUint;
use num_traits::One;
use rayon::prelude::*;
use serde_json::{json, Value};
use swiftness_air::domains::StarkDomains;

/// Returns None if the property holds for (t, c), else a description.
fn check_pair(t: u32, c: u32) -> (String, Option<String>) {
    let n = t + c;
    let d = match panics::catch(|| StarkDomains::new(fu(t as u64), fu(c as u64))) {
        Ok(d) => d,
        Err(p) => return ("panic".into(), Some(format!("StarkDomains::new panicked: {}", p.site()))),
    };
    let one = BigUint::one();
    let g = f2b(&d.eval_generator);
    let h = f2b(&d.trace_generator);
    let mut bad = Vec::new();
    // sizes are the integers 2^n, 2^t (n <= 192 < 251 so they are below p)
    if f2b(&d.eval_domain_size) != pow2(n) {
        bad.push(format!("eval_domain_size={} != 2^{}", fhex(&d.eval_domain_size), n));
    }
    if f2b(&d.trace_domain_size) != pow2(t) {
        bad.push(format!("trace_domain_size={} != 2^{}", fhex(&d.trace_domain_size), t));
    }
    if d.log_eval_domain_size != fu(n as u64) {
        bad.push("log_eval_domain_size does not echo t+c".to_string());
    }
    if d.log_trace_domain_size != fu(t as u64) {
        bad.push("log_trace_domain_size does not echo t".to_string());
    }
    // order exactly 2^n: g^(2^n) = 1 and (n >= 1) g^(2^(n-1)) = -1
    if zint::pow(&g, &pow2(n)) != one {
        bad.push("eval_generator^(2^(t+c)) != 1".to_string());
    }
    if n >= 1 && zint::pow(&g, &pow2(n - 1)) != zint::neg_one() {
        bad.push("eval_generator^(2^(t+c-1)) != -1 (order is not exactly 2^(t+c))".to_string());
    }
    if n == 0 && g != one {
        bad.push("eval_generator of the trivial domain is not 1".to_string());
    }
    if zint::pow(&h, &pow2(t)) != one {
        bad.push("trace_generator^(2^t) != 1".to_string());
    }
    if t >= 1 && zint::pow(&h, &pow2(t - 1)) != zint::neg_one() {
        bad.push("trace_generator^(2^(t-1)) != -1 (order is not exactly 2^t)".to_string());
    }
    if t == 0 && h != one {
        bad.push("trace_generator of the trivial domain is not 1".to_string());
    }
    if zint::pow(&g, &pow2(c)) != h {
        bad.push("trace_generator != eval_generator^(2^c)".to_string());
    }
    if bad.is_empty() {
        ("holds".into(), None)
    } else {
        ("violated".into(), Some(bad.join("; ")))
    }
}

pub fn run(_ctx: &Ctx) -> Report {
    let mut rep = Report::new(
        "C12",
        "exploration",
        "all (log_trace_domain_size t, log_n_cosets c) with t + c in 0..=192, enumerated completely (in parallel, then sequentially in three orders so that a constructor with memory is seen); a pair is \
         non-trivial when t + c >= 1 (the order conditions are not vacuous); distinct by (t, c)",
    );
    rep.trust("num-bigint modpow (reference arithmetic)");
    let mut pairs = Vec::new();
    for t in 0..=192u32 {
        for c in 0..=(192 - t) {
            pairs.push((t, c));
        }
    }
    let results: Vec<((u32, u32), (String, Option<String>))> =
        pairs.par_iter().map(|&(t, c)| ((t, c), check_pair(t, c))).collect();
    for ((t, c), (class, bad)) in results {
        rep.eval(&class);
        if t + c >= 1 {
            rep.nontrivial_case(&format!("{}:{}", t, c));
        }
        if (t, c) == (18, 4) || (t, c) == (0, 0) || (t, c) == (192, 0) || (t, c) == (1, 191) {
            if let Ok(d) = panics::catch(|| StarkDomains::new(fu(t as u64), fu(c as u64))) {
                rep.samples.push(json!({"t": t, "c": c, "eval_generator": fhex(&d.eval_generator),
                    "trace_generator": fhex(&d.trace_generator), "verdict": class}));
            }
        }
        if let Some(b) = bad {
            rep.violation(
                &format!("domains(t={},c={})", t, c),
                &format!("StarkDomains::new({}, {}): {}", t, c, b),
                json!({"kind": "domain", "t": t, "c": c}),
            );
        }
    }
    // ---- history: the constructor must be a function of its arguments only.  Three sequential passes, each on
    // its own thread (a thread-local or global cache would be warm): along the anti-diagonals (t + c constant for
    // consecutive calls), in reverse order, and with a call for another shape (18, 4) before every call.
    let orders: Vec<(&str, Vec<(u32, u32)>)> = vec![
        ("anti-diagonal", {
            let mut v = Vec::new();
            for n in 0..=192u32 {
                for t in 0..=n {
                    v.push((t, n - t));
                }
            }
            v
        }),
        ("reverse", pairs.iter().rev().cloned().collect()),
        ("primed-with-(18,4)", pairs.clone()),
    ];
    let seq: Vec<(&str, Vec<((u32, u32), (u32, u32), String)>)> = orders
        .par_iter()
        .map(|(name, order)| {
            let mut bad = Vec::new();
            let mut prev = (u32::MAX, u32::MAX);
            for &(t, c) in order {
                if *name == "primed-with-(18,4)" {
                    let _ = panics::catch(|| StarkDomains::new(fu(18), fu(4)));
                    prev = (18, 4);
                }
                if let (_, Some(b)) = check_pair(t, c) {
                    bad.push(((t, c), prev, b));
                }
                prev = (t, c);
            }
            (*name, bad)
        })
        .collect();
    for (name, bad) in seq {
        rep.evals(&format!("history:{}:{}", name, if bad.is_empty() { "holds" } else { "violated" }), 18721);
        for ((t, c), prev, b) in bad.into_iter().take(20) {
            rep.violation(&format!("domains-history:{}(t={},c={})", name, t, c),
                &format!("StarkDomains::new({}, {}) called after new({}, {}): {}", t, c, prev.0, prev.1, b),
                json!({"kind": "domain-seq", "t": t, "c": c, "prev_t": prev.0, "prev_c": prev.1}));
        }
    }
    rep.bound_completed = "complete: 18721 pairs, in parallel and in three sequential orders".into();
    rep
}

pub fn replay(_ctx: &Ctx, case: &Value) -> super::ReplayResult {
    let t = case["t"].as_u64().ok_or("replay: missing t")? as u32;
    let c = case["c"].as_u64().ok_or("replay: missing c")? as u32;
    if case["kind"] == "domain-seq" {
        let (pt, pc) = (case["prev_t"].as_u64().unwrap_or(0), case["prev_c"].as_u64().unwrap_or(0));
        let _ = panics::catch(|| StarkDomains::new(fu(pt), fu(pc)));
    }
    let (class, bad) = check_pair(t, c);
    Ok((bad.is_some(), format!("t={} c={} -> {} {}", t, c, class, bad.unwrap_or_default())))
}
