//! C13 - the public-input digest binds every field of the public input.
//! Single-deviation sweep + pairwise distinctness of digests over the whole explored set.
use crate::kit::{build_stone6, fhex, fu, jsonwalk as jw, report::Report, Ctx};
use crate::props::c02::{apply, Mutn};
use crate::refm::{sponge::Sponge, stonefile};
use rayon::prelude::*;
use serde_json::{json, Value};
use starknet_crypto::Felt;
use std::collections::HashMap;
use swiftness_air::{dynamic::DynamicParams, public_memory::PublicInput, types::{AddrValue, ContinuousPageHeader}};

pub struct Base {
    pub name: String,
    pub value: Value,
    pub n_friendly: Felt,
}

fn synthetic(ctx: &Ctx) -> Vec<Base> {
    let mut r = ctx.rng(0x1300);
    let mut out = Vec::new();
    let cell = |a: u64, v: Felt| AddrValue { address: fu(a), value: v };
    let hdr = |s: u64, n: u64, h: Felt, p: Felt| ContinuousPageHeader { start_address: fu(s), size: fu(n), hash: h, prod: p };
    let mut pages: Vec<Vec<AddrValue>> = vec![vec![], vec![cell(1, r.felt())], vec![cell(1, r.felt()), cell(2, Felt::ZERO), cell(3, r.felt())]];
    // a page of 200 cells (the shipped proofs of this build may all have short pages): anything that treats long
    // pages differently (batched hashing, fingerprints of already hashed pages) is reached by the same edits
    pages.push((0..200u64).map(|i| cell(1 + i, if i % 17 == 3 { Felt::ZERO } else { r.felt() })).collect());
    let hdrs: Vec<Vec<ContinuousPageHeader>> = vec![vec![], vec![hdr(100, 3, r.felt(), r.felt())], vec![hdr(100, 3, r.felt(), r.felt()), hdr(200, 1, r.felt(), r.felt())]];
    for (pi, pg) in pages.into_iter().enumerate() {
        for (hi, hs) in hdrs.iter().enumerate() {
            for dynp in [false, true] {
                if dynp && (pi != 1 || hi > 1) {
                    continue;
                }
                if pi == 3 && hi > 1 {
                    continue;
                }
                let dp = if dynp { Some(DynamicParams::from((0..340usize).map(|i| i % 7).collect::<Vec<_>>())) } else { None };
                let p = crate::refm::make_public_input(
                    fu(10), fu(3), fu(900), fu(0x726563), dp.as_ref().map(|d| serde_json::to_value(d).unwrap()),
                    &[(fu(1), fu(5)), (fu(20), fu(30))], (fu(1), r.felt()),
                    &pg.iter().map(|c| (c.address, c.value)).collect::<Vec<_>>(),
                    &hs.iter().map(|h| (h.start_address, h.size, h.hash, h.prod)).collect::<Vec<_>>(),
                );
                out.push(Base { name: format!("synthetic/page{}-hdr{}-dyn{}", pi, hi, dynp), value: serde_json::to_value(&p).unwrap(), n_friendly: fu(7) });
            }
        }
    }
    out
}

fn bases(ctx: &Ctx) -> Vec<Base> {
    let mut out = synthetic(ctx);
    let files = stonefile::corpus(ctx);
    for pf in files {
        // the digest does not depend on the hash variant: use every shipped proof of this Stone version
        if pf.stone6 != build_stone6() {
            continue;
        }
        if ctx.quick() && !(pf.loaded.meta.layout == "recursive" || pf.loaded.meta.layout == "dynamic" || pf.loaded.meta.layout == "starknet") {
            continue;
        }
        out.push(Base { name: pf.name.clone(), value: serde_json::to_value(&pf.loaded.proof.public_input).unwrap(), n_friendly: pf.loaded.proof.config.n_verifier_friendly_commitment_layers });
    }
    out
}

/// identity of an input = its serde tree with the non-binding `prod` fields removed (+ the
/// friendly-layer argument under Stone 6)
fn identity(v: &Value, nf: &Felt) -> String {
    let mut c = v.clone();
    if let Some(hs) = c.get_mut("continuous_page_headers").and_then(|h| h.as_array_mut()) {
        for h in hs {
            if let Some(o) = h.as_object_mut() {
                o.remove("prod");
            }
        }
    }
    if build_stone6() {
        format!("{}|nf={}", c, fhex(nf))
    } else {
        c.to_string()
    }
}

fn digest_of(v: &Value, nf: &Felt) -> Option<Felt> {
    let p: PublicInput = serde_json::from_value(v.clone()).ok()?;
    let nf = *nf;
    crate::kit::panics::catch(move || p.get_hash(nf)).ok()
}

#[derive(Clone, Debug)]
enum Edit {
    Field(jw::Path, Mutn),
    SwapNext(jw::Path),
    InsertCell(usize),
    /// a second cell with the SAME address as cell i and another value, right after it
    RepeatAddress(usize),
    /// headers i and i+1 exchanged
    TransposeHeaders(usize),
    DeleteCell(usize),
    TransposeCells(usize),
    InsertHeader(usize),
    DeleteHeader(usize),
    Friendly(i64),
    Clone,
}

fn edits(base: &Value) -> Vec<Edit> {
    let mut out = vec![Edit::Clone];
    for leaf in jw::leaves(base) {
        let is_prod = matches!(leaf.last(), Some(jw::Seg::Key(k)) if k == "prod");
        if is_prod {
            continue;
        }
        out.push(Edit::Field(leaf.clone(), Mutn::Plus1));
        out.push(Edit::Field(leaf.clone(), Mutn::Zero));
        // values that differ only in high bits (numbers: +2^32 / +2^48 / +2^62; felts: +2^160 / +2^248 / +2^250)
        for k in [160u32, 248, 250] {
            out.push(Edit::Field(leaf.clone(), Mutn::HighBit(k)));
        }
        out.push(Edit::SwapNext(leaf));
    }
    let n_cells = base["main_page"].as_array().map(|a| a.len()).unwrap_or(0);
    for i in 0..=n_cells {
        out.push(Edit::InsertCell(i));
    }
    for i in 0..n_cells {
        out.push(Edit::DeleteCell(i));
        out.push(Edit::RepeatAddress(i));
        if i + 1 < n_cells {
            out.push(Edit::TransposeCells(i));
        }
    }
    let n_h = base["continuous_page_headers"].as_array().map(|a| a.len()).unwrap_or(0);
    for i in 0..=n_h {
        out.push(Edit::InsertHeader(i));
    }
    for i in 0..n_h {
        out.push(Edit::DeleteHeader(i));
        if i + 1 < n_h {
            out.push(Edit::TransposeHeaders(i));
        }
    }
    if build_stone6() {
        out.push(Edit::Friendly(1));
        out.push(Edit::Friendly(-1));
        out.push(Edit::Friendly(64));
        out.push(Edit::Friendly(128));
        out.push(Edit::Friendly(250));
    }
    out
}

fn apply_edit(base: &Value, nf: &Felt, e: &Edit) -> Option<(Value, Felt)> {
    let mut v = base.clone();
    let mut f = *nf;
    match e {
        Edit::Clone => {}
        Edit::Field(p, m) => v = apply(base, p, m)?,
        Edit::SwapNext(p) => {
            // swap this leaf with the same leaf of the next element of the enclosing vector
            let pos = p.iter().rposition(|s| matches!(s, jw::Seg::Idx(_)))?;
            let mut q = p.clone();
            if let jw::Seg::Idx(i) = q[pos] {
                q[pos] = jw::Seg::Idx(i + 1);
            }
            let a = jw::get(base, p)?.clone();
            let b = jw::get(base, &q)?.clone();
            if a == b {
                return None;
            }
            jw::set(&mut v, p, b);
            jw::set(&mut v, &q, a);
        }
        Edit::InsertCell(i) => v["main_page"].as_array_mut()?.insert(*i, json!({"address": "0x7777", "value": "0x1234"})),
        Edit::DeleteCell(i) => {
            v["main_page"].as_array_mut()?.remove(*i);
        }
        Edit::RepeatAddress(i) => {
            let a = v["main_page"].as_array_mut()?;
            let addr = a.get(*i)?["address"].clone();
            a.insert(*i + 1, json!({"address": addr, "value": "0x4321"}));
        }
        Edit::TransposeHeaders(i) => {
            let a = v["continuous_page_headers"].as_array_mut()?;
            if *i + 1 >= a.len() || a[*i] == a[*i + 1] {
                return None;
            }
            a.swap(*i, *i + 1);
        }
        Edit::TransposeCells(i) => {
            let a = v["main_page"].as_array_mut()?;
            if a[*i] == a[*i + 1] {
                return None;
            }
            a.swap(*i, *i + 1);
        }
        Edit::InsertHeader(i) => v["continuous_page_headers"].as_array_mut()?.insert(*i, json!({"start_address": "0x900", "size": "0x2", "hash": "0xabc", "prod": "0x5"})),
        Edit::DeleteHeader(i) => {
            v["continuous_page_headers"].as_array_mut()?.remove(*i);
        }
        Edit::Friendly(d) => {
            f = match *d {
                1 => f + Felt::ONE,
                -1 => f - Felt::ONE,
                k => f + crate::kit::b2f(&crate::kit::pow2(k as u32)),
            }
        }
    }
    Some((v, f))
}

fn edit_class(e: &Edit) -> String {
    match e {
        Edit::Field(p, m) => format!("{}:{}", jw::path_class(p), m.kind()),
        Edit::SwapNext(p) => format!("{}:swap-next", jw::path_class(p)),
        Edit::InsertCell(_) => "main_page:insert".into(),
        Edit::RepeatAddress(_) => "main_page:repeat-address".into(),
        Edit::TransposeHeaders(_) => "continuous_page_headers:transpose".into(),
        Edit::DeleteCell(_) => "main_page:delete".into(),
        Edit::TransposeCells(_) => "main_page:transpose".into(),
        Edit::InsertHeader(_) => "continuous_page_headers:insert".into(),
        Edit::DeleteHeader(_) => "continuous_page_headers:delete".into(),
        Edit::Friendly(_) => "n_verifier_friendly_commitment_layers".into(),
        Edit::Clone => "clone".into(),
    }
}

pub fn run(ctx: &Ctx) -> Report {
    let mut rep = Report::new(
        "C13",
        "exploration",
        "public inputs = honest ones of this Stone version + synthetic ones (0/1/3/200 main-page cells, 0-2 continuous-page \
         headers, dynamic parameters present/absent), each with every single-field edit (+1, 0/1, + a high power of two, swap with the same field of the \
         next vector element), main-page cell insertion at every position / deletion / adjacent transposition, header insertion / \
         deletion, friendly-layer count +-1 (Stone 6); oracle: over the WHOLE explored set, unequal inputs (header `prod` excluded) \
         have pairwise different digests and equal inputs equal digests; honest digests reproduce the prover's first challenge. \
         Non-trivial: the edit changes the typed value; distinct by input identity",
    );
    rep.trust("Pedersen and Poseidon (starknet-crypto)");
    rep.assume("collision resistance of Pedersen / Poseidon on the explored set");
    let bs = bases(ctx);
    let jobs: Vec<(usize, Edit)> = bs.iter().enumerate().flat_map(|(i, b)| edits(&b.value).into_iter().map(move |e| (i, e))).collect();
    let flat: Vec<(usize, Option<(String, String, Option<Felt>, String)>)> = jobs
        .par_iter()
        .map(|(i, e)| {
            let b = &bs[*i];
            (*i, apply_edit(&b.value, &b.n_friendly, e).map(|(v, f)| (identity(&v, &f), edit_class(e), digest_of(&v, &f), format!("{:?}", e))))
        })
        .collect();
    let mut computed: Vec<Vec<(String, String, Option<Felt>, String)>> = bs.iter().map(|_| Vec::new()).collect();
    for (i, r) in flat {
        if let Some(x) = r {
            computed[i].push(x);
        }
    }
    let mut by_digest: HashMap<Felt, (String, String)> = HashMap::new();
    let mut by_identity: HashMap<String, Felt> = HashMap::new();
    for (b, list) in bs.iter().zip(computed) {
        for (id, class, d, desc) in list {
            let d = match d {
                Some(d) => d,
                None => {
                    rep.eval("digest:untypable-or-panic");
                    continue;
                }
            };
            rep.nontrivial_case(&id);
            rep.sample(&class, json!({"base": b.name, "edit": desc, "digest": fhex(&d)}));
            if let Some(prev) = by_identity.get(&id) {
                if *prev != d {
                    rep.eval("digest:nondeterministic");
                    rep.violation("digest:equal-inputs-differ", &format!("{} {}: equal public inputs give different digests", b.name, desc), json!({"kind": "pi", "base": b.name, "edit": desc}));
                } else {
                    rep.eval("digest:equal-input-equal-digest");
                }
                continue;
            }
            by_identity.insert(id.clone(), d);
            match by_digest.get(&d) {
                Some((pid, pdesc)) if *pid != id => {
                    rep.eval("digest:COLLISION");
                    rep.violation(&format!("digest:not-binding:{}", class), &format!("{} {}: same digest as the different input reached by [{}]", b.name, desc, pdesc),
                        json!({"kind": "pi", "base": b.name, "edit": desc, "other": pdesc}));
                }
                _ => {
                    rep.eval("digest:distinct");
                    by_digest.insert(d, (id, format!("{} {}", b.name, desc)));
                }
            }
        }
    }
    // ---- history: the digest must be a function of the CURRENT value of the input.  For every base (one thread per
    // base, sequentially): hash it (anything that could be cached now is), then turn the same object into each edited
    // input - once by assigning every field, once by overwriting the main-page cells in place (same buffer) - and
    // compare with the digest of a freshly built equal input computed on a fresh thread.
    let hist: Vec<(usize, u64, Vec<(String, String)>)> = bs
        .par_iter()
        .enumerate()
        .map(|(bi, b)| {
            let mut n = 0u64;
            let mut bad = Vec::new();
            let base_pi: PublicInput = match serde_json::from_value(b.value.clone()) {
                Ok(p) => p,
                Err(_) => return (bi, 0, bad),
            };
            let list = edits(&b.value);
            let stride = (list.len() / if ctx.quick() { 100 } else { 400 }).max(1); // at most ~100 (400) edits per base
            // the strided sample, plus - always - a few edits that keep the page's length and the sums of its addresses
            // and values (transposed cells at the start, in the middle and at the end): what a cheap fingerprint of an
            // already hashed page cannot tell apart
            let n_cells = base_pi.main_page.0.len();
            let keep: Vec<usize> = vec![0, 1, n_cells / 3, n_cells / 2, n_cells.saturating_sub(3), n_cells.saturating_sub(2)];
            let chosen: Vec<&Edit> = list
                .iter()
                .enumerate()
                .filter(|(i, e)| i % stride == 0 || matches!(e, Edit::TransposeCells(j) if keep.contains(j)) || matches!(e, Edit::TransposeHeaders(0)))
                .map(|(_, e)| e)
                .collect();
            for e in chosen {
                let (v, f) = match apply_edit(&b.value, &b.n_friendly, e) {
                    Some(x) => x,
                    None => continue,
                };
                let fresh: PublicInput = match serde_json::from_value(v.clone()) {
                    Ok(p) => p,
                    Err(_) => continue,
                };
                let expected = {
                    let (v2, f2) = (v.clone(), f);
                    match std::thread::spawn(move || digest_of(&v2, &f2)).join() {
                        Ok(Some(d)) => d,
                        _ => continue,
                    }
                };
                // (a) every field assigned
                let mut m: PublicInput = match serde_json::from_value(b.value.clone()) {
                    Ok(p) => p,
                    Err(_) => continue,
                };
                let fresh_a: PublicInput = match serde_json::from_value(v.clone()) {
                    Ok(p) => p,
                    Err(_) => continue,
                };
                let _ = crate::kit::panics::catch(|| m.get_hash(b.n_friendly));
                m.log_n_steps = fresh_a.log_n_steps;
                m.range_check_min = fresh_a.range_check_min;
                m.range_check_max = fresh_a.range_check_max;
                m.layout = fresh_a.layout;
                m.dynamic_params = fresh_a.dynamic_params;
                m.segments = fresh_a.segments;
                m.padding_addr = fresh_a.padding_addr;
                m.padding_value = fresh_a.padding_value;
                m.main_page = fresh_a.main_page;
                m.continuous_page_headers = fresh_a.continuous_page_headers;
                let got_a = crate::kit::panics::catch(|| m.get_hash(f)).ok();
                n += 1;
                if got_a != Some(expected) {
                    bad.push((format!("{:?}", e), "after assigning every field of an already hashed input".to_string()));
                }
                // (b) same main-page buffer, cells overwritten in place
                if fresh.main_page.0.len() == base_pi.main_page.0.len() && !fresh.main_page.0.is_empty() {
                    let mut m2: PublicInput = match serde_json::from_value(b.value.clone()) {
                        Ok(p) => p,
                        Err(_) => continue,
                    };
                    let fresh_b: PublicInput = match serde_json::from_value(v.clone()) {
                        Ok(p) => p,
                        Err(_) => continue,
                    };
                    let _ = crate::kit::panics::catch(|| m2.get_hash(b.n_friendly));
                    for (dst, src) in m2.main_page.0.iter_mut().zip(fresh.main_page.0.iter()) {
                        dst.address = src.address;
                        dst.value = src.value;
                    }
                    m2.log_n_steps = fresh.log_n_steps;
                    m2.range_check_min = fresh.range_check_min;
                    m2.range_check_max = fresh.range_check_max;
                    m2.layout = fresh.layout;
                    m2.dynamic_params = fresh_b.dynamic_params;
                    m2.segments = fresh_b.segments;
                    m2.padding_addr = fresh.padding_addr;
                    m2.padding_value = fresh.padding_value;
                    m2.continuous_page_headers = fresh_b.continuous_page_headers;
                    let got_b = crate::kit::panics::catch(|| m2.get_hash(f)).ok();
                    n += 1;
                    if got_b != Some(expected) {
                        bad.push((format!("{:?}", e), "after overwriting the main-page cells of an already hashed input in place".to_string()));
                    }
                }
            }
            (bi, n, bad)
        })
        .collect();
    for (bi, n, bad) in hist {
        rep.evals(if bad.is_empty() { "digest:history-independent" } else { "digest:STALE" }, n);
        rep.nontrivial_case(&format!("history|{}", bs[bi].name));
        for (desc, how) in bad.into_iter().take(3) {
            rep.violation("digest:depends-on-history", &format!("{} {}: the digest {} differs from the digest of a freshly built equal input", bs[bi].name, desc, how),
                json!({"kind": "pi-history", "base": bs[bi].name}));
        }
    }
    // recorded proofs: the digest seeds the transcript that produced the prover's first challenge
    for pf in stonefile::native_proofs(ctx) {
        let p = &pf.loaded.proof;
        let d = p.public_input.get_hash(p.config.n_verifier_friendly_commitment_layers);
        let mut s = Sponge::new(d);
        s.absorb(&[p.unsent_commitment.traces.original]);
        let first = s.squeeze();
        let ok = pf.loaded.log.interaction_elements.first() == Some(&first);
        rep.eval(if ok { "recorded:first-challenge-reproduced" } else { "recorded:first-challenge-differs" });
        rep.traces_validated += 1;
        if !ok {
            rep.violation("digest:recorded-seed", &format!("{}: transcript seeded with the digest does not reproduce the prover's first interaction element", pf.name), json!({"kind": "recorded", "proof": pf.name}));
        }
    }
    rep.extra.insert("distinct_inputs".into(), json!(by_identity.len()));
    rep.extra.insert("distinct_digests".into(), json!(by_digest.len()));
    rep.bound_completed = format!("{} bases, 1 deviation each; pairwise distinctness over {} inputs", bs.len(), by_identity.len());
    rep
}

pub fn replay(ctx: &Ctx, case: &Value) -> super::ReplayResult {
    // re-run the sweep for the named base only and report collisions inside it plus against the other description
    let name = case["base"].as_str().ok_or("base")?;
    let bs = bases(ctx);
    let b = bs.iter().find(|b| b.name == name).ok_or("no such base")?;
    let mut seen: HashMap<Felt, String> = HashMap::new();
    let mut bad = Vec::new();
    for e in edits(&b.value) {
        if let Some((v, f)) = apply_edit(&b.value, &b.n_friendly, &e) {
            if let Some(d) = digest_of(&v, &f) {
                let id = identity(&v, &f);
                if let Some(prev) = seen.get(&d) {
                    if *prev != id {
                        bad.push(format!("{:?}", e));
                    }
                }
                seen.insert(d, id);
            }
        }
    }
    Ok((!bad.is_empty(), format!("colliding edits within base: {:?}", bad)))
}
