//! C17 - verification work is bounded by the size of the proof.
//! Every numeric field at extreme values (and consistent re-declarations of dependent
//! fields); each case runs `StarkProof::verify` in a resource-limited worker process whose
//! CPU time and peak RSS are measured.
use crate::kit::{build_name, fhex, jsonwalk as jw, report::Report, Ctx};
use crate::props::c02::{bases, Base};
use crate::props::c18::extreme_felts;
use crate::props::common::{proof_from_value, verify};
use serde_json::{json, Value};
use starknet_crypto::Felt;
use std::collections::VecDeque;
use std::io::{BufRead, BufReader, Write};
use std::os::unix::process::CommandExt;
use std::process::{Child, Command, Stdio};
use std::sync::{mpsc, Arc, Mutex};
use std::time::{Duration, Instant};

const CPU_CAP_MS: u64 = 5_000;
const RSS_CAP_KB: u64 = 1_100_000; // 1 GiB + margin
const WALL_KILL_S: u64 = 25;
const AS_LIMIT_BYTES: u64 = 6 << 30;

fn rusage_self() -> (u64, u64) {
    unsafe {
        let mut ru: libc::rusage = std::mem::zeroed();
        libc::getrusage(libc::RUSAGE_SELF, &mut ru);
        let ms = (ru.ru_utime.tv_sec as u64 + ru.ru_stime.tv_sec as u64) * 1000 + (ru.ru_utime.tv_usec as u64 + ru.ru_stime.tv_usec as u64) / 1000;
        (ms, ru.ru_maxrss as u64)
    }
}

/// Peak RSS of this process since exec (ru_maxrss is inherited from the forking parent).
fn vm_hwm_kb() -> u64 {
    std::fs::read_to_string("/proc/self/status")
        .ok()
        .and_then(|s| s.lines().find(|l| l.starts_with("VmHWM:")).and_then(|l| l.split_whitespace().nth(1).and_then(|x| x.parse().ok())))
        .unwrap_or(0)
}

/// Worker: one JSON case per stdin line -> one JSON result per stdout line.
pub fn worker() -> i32 {
    let stdin = std::io::stdin();
    let mut out = std::io::stdout();
    for line in stdin.lock().lines() {
        let line = match line {
            Ok(l) => l,
            Err(_) => break,
        };
        if line.trim().is_empty() {
            continue;
        }
        let v: Value = match serde_json::from_str(&line) {
            Ok(v) => v,
            Err(_) => {
                let _ = writeln!(out, "{}", json!({"error": "bad case"}));
                continue;
            }
        };
        let layout = v["layout"].as_str().unwrap_or("").to_string();
        let (c0, _) = rusage_self();
        let typed = if layout == "parse:" || layout == "transform:" { None } else { proof_from_value(&v["proof"]) };
        let verdict = match typed {
            // subject "pubin": public-input validation and the program/output hashes called directly (in a
            // full verification they are only reached by a proof that is otherwise valid)
            _ if layout == "transform:" => {
                // subject "transform": the parser's own proof structure (what the wasm binding deserialises)
                // through the CLI conversion
                match serde_json::from_value::<swiftness_proof_parser::stark_proof::StarkProof>(v["proof"].clone()) {
                    Ok(p) => match crate::kit::panics::catch(move || {
                        use swiftness::transform::TransformTo;
                        let _q: swiftness_stark::types::StarkProof = p.transform_to();
                    }) {
                        Ok(()) => "ok".to_string(),
                        Err(pn) => format!("panic:{}", pn.site()),
                    },
                    Err(_) => "untypable".to_string(),
                }
            }
            _ if layout == "parse:" => {
                // subject "parse": the proof FILE (a JSON document) through the parser and the CLI's conversion
                let text = serde_json::to_string(&v["proof"]).unwrap_or_default();
                match crate::props::c19::parse_and_transform(&text) {
                    crate::props::c19::Parsed::Ok(_) => "ok".to_string(),
                    crate::props::c19::Parsed::Err(_) => "err".to_string(),
                    crate::props::c19::Parsed::Panic(p) => format!("panic:{}", p.site()),
                }
            }
            Some(p) if layout.starts_with("pubin:") => {
                let l = &layout[6..];
                let lt = crate::kit::f2b(&p.config.log_trace_domain_size).to_u64_digits().first().cloned().unwrap_or(0).min(80);
                let a = crate::props::c14::run_validate(l, &p.public_input, lt);
                let b = crate::props::c14::run_hashes(l, &p.public_input).0;
                // ... and the digest that seeds the transcript
                let nf = p.config.n_verifier_friendly_commitment_layers;
                let d = crate::kit::panics::catch(|| p.public_input.get_hash(nf)).is_ok();
                format!("{}+{}+{}", a.short(), b.short(), if d { "digest" } else { "digest-panic" })
            }
            Some(p) => verify(&p, &layout).class(),
            None => "untypable".to_string(),
        };
        let (c1, _) = rusage_self();
        let rss = vm_hwm_kb();
        let _ = writeln!(out, "{}", json!({"verdict": verdict, "cpu_ms": c1 - c0, "maxrss_kb": rss}));
        let _ = out.flush();
    }
    0
}

struct Worker {
    child: Child,
    tx_in: std::process::ChildStdin,
    rx: mpsc::Receiver<String>,
}
fn spawn_worker() -> std::io::Result<Worker> {
    let exe = std::env::current_exe()?;
    let mut cmd = Command::new(exe);
    cmd.arg("C17").arg("--worker").stdin(Stdio::piped()).stdout(Stdio::piped()).stderr(Stdio::null());
    cmd.env("RAYON_NUM_THREADS", "1");
    unsafe {
        cmd.pre_exec(|| {
            let lim = libc::rlimit { rlim_cur: AS_LIMIT_BYTES, rlim_max: AS_LIMIT_BYTES };
            libc::setrlimit(libc::RLIMIT_AS, &lim);
            Ok(())
        });
    }
    let mut child = cmd.spawn()?;
    let tx_in = child.stdin.take().unwrap();
    let stdout = child.stdout.take().unwrap();
    let (tx, rx) = mpsc::channel();
    std::thread::spawn(move || {
        for l in BufReader::new(stdout).lines().map_while(Result::ok) {
            if tx.send(l).is_err() {
                break;
            }
        }
    });
    Ok(Worker { child, tx_in, rx })
}
fn proc_cpu_ms(pid: u32) -> Option<u64> {
    let s = std::fs::read_to_string(format!("/proc/{}/stat", pid)).ok()?;
    let rest = &s[s.rfind(')')? + 2..];
    let f: Vec<&str> = rest.split_whitespace().collect();
    let ticks: u64 = f.get(11)?.parse::<u64>().ok()? + f.get(12)?.parse::<u64>().ok()?;
    let hz = unsafe { libc::sysconf(libc::_SC_CLK_TCK) } as u64;
    Some(ticks * 1000 / hz.max(1))
}

#[derive(Clone, Debug)]
pub enum Outcome {
    Done { verdict: String, cpu_ms: u64, maxrss_kb: u64 },
    /// killed after the wall cap with this much CPU consumed
    Runaway { cpu_ms: u64 },
    Died { status: String },
    Starved,
}

/// Run all cases on a pool of worker processes.
pub fn run_pool(cases: &[(String, Input)], n_workers: usize) -> Vec<Outcome> {
    let queue: Arc<Mutex<VecDeque<usize>>> = Arc::new(Mutex::new((0..cases.len()).collect()));
    let results: Arc<Mutex<Vec<Option<Outcome>>>> = Arc::new(Mutex::new(vec![None; cases.len()]));
    let cases_arc: Arc<Vec<(String, Input)>> = Arc::new(cases.to_vec());
    let mut handles = Vec::new();
    for _ in 0..n_workers {
        let (queue, results, cases) = (queue.clone(), results.clone(), cases_arc.clone());
        handles.push(std::thread::spawn(move || {
            let mut w: Option<Worker> = None;
            loop {
                let i = match queue.lock().unwrap().pop_front() {
                    Some(i) => i,
                    None => break,
                };
                let mut attempt = 0;
                let line_out = json!({"layout": cases[i].0, "proof": cases[i].1.materialize()}).to_string();
                let outcome = loop {
                    attempt += 1;
                    if w.is_none() {
                        w = spawn_worker().ok();
                    }
                    let wk = match w.as_mut() {
                        Some(wk) => wk,
                        None => break Outcome::Died { status: "cannot spawn worker".into() },
                    };
                    if writeln!(wk.tx_in, "{}", line_out).and_then(|_| wk.tx_in.flush()).is_err() {
                        let st = wk.child.wait().map(|s| format!("{:?}", s)).unwrap_or_default();
                        w = None;
                        break Outcome::Died { status: st };
                    }
                    let t0 = Instant::now();
                    match wk.rx.recv_timeout(Duration::from_secs(WALL_KILL_S)) {
                        Ok(line) => {
                            let v: Value = serde_json::from_str(&line).unwrap_or(json!({}));
                            break Outcome::Done {
                                verdict: v["verdict"].as_str().unwrap_or("?").to_string(),
                                cpu_ms: v["cpu_ms"].as_u64().unwrap_or(0),
                                maxrss_kb: v["maxrss_kb"].as_u64().unwrap_or(0),
                            };
                        }
                        Err(mpsc::RecvTimeoutError::Timeout) => {
                            let cpu = proc_cpu_ms(wk.child.id()).unwrap_or(0);
                            let _ = wk.child.kill();
                            let _ = wk.child.wait();
                            w = None;
                            let _ = t0;
                            if cpu >= CPU_CAP_MS {
                                break Outcome::Runaway { cpu_ms: cpu };
                            }
                            if attempt >= 2 {
                                break Outcome::Starved;
                            }
                        }
                        Err(mpsc::RecvTimeoutError::Disconnected) => {
                            let st = wk.child.wait().map(|s| format!("{:?}", s)).unwrap_or_default();
                            w = None;
                            break Outcome::Died { status: st };
                        }
                    }
                };
                results.lock().unwrap()[i] = Some(outcome);
            }
            if let Some(mut wk) = w {
                drop(wk.tx_in);
                let _ = wk.child.wait();
            }
        }));
    }
    for h in handles {
        let _ = h.join();
    }
    let r = results.lock().unwrap();
    r.iter().map(|o| o.clone().unwrap_or(Outcome::Starved)).collect()
}

fn numeric_paths(v: &Value) -> Vec<jw::Path> {
    jw::leaves(v)
        .into_iter()
        .filter(|l| {
            let ps = jw::path_str(l);
            // numbers: configuration, public-input scalars / segments / the first cells' addresses, nonce, dynamic params
            ps.starts_with("config")
                || ps.ends_with("nonce")
                || (ps.starts_with("public_input")
                    && (!ps.contains("main_page[") || ps.contains("main_page[0].") || ps.ends_with("main_page[1].address")))
        })
        .collect()
}

/// What a worker is given: a whole document, or a base document plus ONE edit that is applied only when the
/// case is sent (thousands of cases over multi-megabyte documents are never all in memory).
#[derive(Clone)]
pub enum Input {
    Full(Value),
    Edit { base: Arc<Value>, path: jw::Path, value: Value },
}
impl Input {
    pub fn materialize(&self) -> Value {
        match self {
            Input::Full(v) => v.clone(),
            Input::Edit { base, path, value } => {
                let mut v = (**base).clone();
                jw::set(&mut v, path, value.clone());
                v
            }
        }
    }
}

struct Case {
    base: usize,
    desc: String,
    class: String,
    value: Input,
}

fn set_hex(v: &mut Value, path: &str, f: &Felt) {
    jw::set(v, &jw::parse_path(path), Value::String(fhex(f)));
}
fn get_hex(v: &Value, path: &str) -> Felt {
    Felt::from_hex(jw::get(v, &jw::parse_path(path)).and_then(|x| x.as_str()).unwrap_or("0x0")).unwrap()
}

/// Consistent re-declarations: several fields changed together so that configuration and
/// public-input validation still pass as far as possible.
pub fn redeclarations(b: &Base) -> Vec<(String, Value)> {
    let mut out = Vec::new();
    let heights = ["config.traces.original.vector.height", "config.traces.interaction.vector.height", "config.composition.vector.height", "config.fri.log_input_size"];
    let n_inner = b.value["config"]["fri"]["inner_layers"].as_array().map(|a| a.len()).unwrap_or(0);
    // trace exponent +d with every height, the FRI input size, the last-layer bound and log_n_steps following
    for d in [1u64, 8, 40] {
        let mut v = b.value.clone();
        let df = Felt::from(d);
        let t = get_hex(&v, "config.log_trace_domain_size");
        set_hex(&mut v, "config.log_trace_domain_size", &(t + df));
        for h in heights {
            let x = get_hex(&v, h);
            set_hex(&mut v, h, &(x + df));
        }
        for i in 0..n_inner {
            let p = format!("config.fri.inner_layers[{}].vector.height", i);
            let x = get_hex(&v, &p);
            set_hex(&mut v, &p, &(x + df));
        }
        let l = get_hex(&v, "config.fri.log_last_layer_degree_bound");
        set_hex(&mut v, "config.fri.log_last_layer_degree_bound", &(l + df));
        let s = get_hex(&v, "public_input.log_n_steps");
        set_hex(&mut v, "public_input.log_n_steps", &(s + df));
        out.push((format!("trace exponent +{} (heights, FRI sizes, last-layer bound, log_n_steps follow)", d), v));
    }
    // trace exponent +8 / +40 with EXTRA FRI LAYERS of step 4 (so that the configuration stays valid: the
    // last-layer bound is unchanged), heights, FRI input size, layer count, commitments, witnesses and
    // log_n_steps all following
    for d in [8u64, 40, 44] {
        let k = (d / 4) as usize;
        let n_steps_now = b.value["config"]["fri"]["fri_step_sizes"].as_array().map(|a| a.len()).unwrap_or(0);
        if n_steps_now + k > 15 || n_inner == 0 {
            continue;
        }
        let mut v = b.value.clone();
        let df = Felt::from(d);
        let t = get_hex(&v, "config.log_trace_domain_size");
        set_hex(&mut v, "config.log_trace_domain_size", &(t + df));
        for h in heights {
            let x = get_hex(&v, h);
            set_hex(&mut v, h, &(x + df));
        }
        for i in 0..n_inner {
            let p = format!("config.fri.inner_layers[{}].vector.height", i);
            let x = get_hex(&v, &p);
            set_hex(&mut v, &p, &(x + df));
        }
        let nf = get_hex(&v, "config.n_verifier_friendly_commitment_layers");
        let mut h = get_hex(&v, &format!("config.fri.inner_layers[{}].vector.height", n_inner - 1));
        for j in 0..k {
            h -= Felt::from(4u64);
            v["config"]["fri"]["fri_step_sizes"].as_array_mut().unwrap().push(Value::String("0x4".into()));
            v["config"]["fri"]["inner_layers"].as_array_mut().unwrap().push(json!({"n_columns": "0x10", "vector": {"height": fhex(&h), "n_verifier_friendly_commitment_layers": fhex(&nf)}}));
            v["unsent_commitment"]["fri"]["inner_layers"].as_array_mut().unwrap().push(Value::String(format!("{:#x}", 0x7777 + j)));
            v["witness"]["fri_witness"]["layers"].as_array_mut().unwrap().push(json!({"leaves": [], "table_witness": {"vector": {"authentications": []}}}));
        }
        let nl = get_hex(&v, "config.fri.n_layers");
        set_hex(&mut v, "config.fri.n_layers", &(nl + Felt::from(k as u64)));
        let st = get_hex(&v, "public_input.log_n_steps");
        set_hex(&mut v, "public_input.log_n_steps", &(st + df));
        out.push((format!("trace exponent +{} with {} extra FRI layers (valid configuration and public input)", d, k), v));
    }
    // blow-up exponent with all heights following
    for c in [1u64, 16] {
        let mut v = b.value.clone();
        let old = get_hex(&v, "config.log_n_cosets");
        let delta = Felt::from(c) - old;
        set_hex(&mut v, "config.log_n_cosets", &Felt::from(c));
        for h in heights {
            let x = get_hex(&v, h);
            set_hex(&mut v, h, &(x + delta));
        }
        for i in 0..n_inner {
            let p = format!("config.fri.inner_layers[{}].vector.height", i);
            let x = get_hex(&v, &p);
            set_hex(&mut v, &p, &(x + delta));
        }
        out.push((format!("blow-up exponent = {} (all heights follow)", c), v));
    }
    // query count at and above its bound, with the security level following (own security is used)
    for q in [48u64, 49, 1 << 16, 1 << 40] {
        let mut v = b.value.clone();
        set_hex(&mut v, "config.n_queries", &Felt::from(q));
        out.push((format!("n_queries = {}", q), v));
    }
    // friendly-layer count everywhere
    for f in [0u64, u64::MAX] {
        let mut v = b.value.clone();
        let ff = Felt::from(f);
        set_hex(&mut v, "config.n_verifier_friendly_commitment_layers", &ff);
        for p in ["config.traces.original.vector", "config.traces.interaction.vector", "config.composition.vector"] {
            set_hex(&mut v, &format!("{}.n_verifier_friendly_commitment_layers", p), &ff);
        }
        for i in 0..n_inner {
            set_hex(&mut v, &format!("config.fri.inner_layers[{}].vector.n_verifier_friendly_commitment_layers", i), &ff);
        }
        out.push((format!("friendly-layer count = {} everywhere", f), v));
    }
    // segment addresses near 2^64
    {
        let mut v = b.value.clone();
        let n = v["public_input"]["segments"].as_array().map(|a| a.len()).unwrap_or(0);
        for i in 3..n {
            set_hex(&mut v, &format!("public_input.segments[{}].begin_addr", i), &Felt::from(u64::MAX - 100));
            set_hex(&mut v, &format!("public_input.segments[{}].stop_ptr", i), &Felt::from(u64::MAX - 100));
        }
        out.push(("builtin segments moved near 2^64".into(), v));
    }
    out
}

fn cases_for(bi: usize, b: &Base) -> Vec<Case> {
    let mut out = Vec::new();
    let shared = Arc::new(b.value.clone());
    out.push(Case { base: bi, desc: "honest".into(), class: "honest".into(), value: Input::Full(b.value.clone()) });
    for p in numeric_paths(&b.value) {
        let ps = jw::path_str(&p);
        match jw::get(&b.value, &p).unwrap() {
            Value::String(_) => {
                for m in extreme_felts() {
                    let nv = Value::String(fhex(&m));
                    if jw::get(&b.value, &p) != Some(&nv) {
                        out.push(Case { base: bi, desc: format!("{} = {}", ps, fhex(&m)), class: jw::path_class(&p), value: Input::Edit { base: shared.clone(), path: p.clone(), value: nv } });
                    }
                }
            }
            Value::Number(_) => {
                let is_u8 = ps.ends_with("n_bits");
                let menu: Vec<u64> = if is_u8 { vec![0, 1, 255] } else { vec![0, 1, 1 << 16, 1 << 32, 1 << 40, u64::MAX] };
                for m in menu {
                    let nv = json!(m);
                    if jw::get(&b.value, &p) != Some(&nv) {
                        out.push(Case { base: bi, desc: format!("{} = {}", ps, m), class: jw::path_class(&p), value: Input::Edit { base: shared.clone(), path: p.clone(), value: nv } });
                    }
                }
            }
            _ => {}
        }
    }
    for (desc, v) in redeclarations(b) {
        out.push(Case { base: bi, desc: desc.clone(), class: format!("redeclare:{}", desc.split(' ').take(2).collect::<Vec<_>>().join("-")), value: Input::Full(v) });
    }
    out.extend(page_header_cases(bi, &shared, ""));
    out
}

/// A continuous page header appended to the public input, its declared `size` (and start address) at the extremes:
/// the header is 4 numbers of the proof, whatever it declares (no shipped proof has one, so the single-field menu
/// above never reaches the code that reads headers).
fn page_header_cases(bi: usize, shared: &Arc<Value>, tag: &str) -> Vec<Case> {
    let mut out = Vec::new();
    let path = jw::parse_path("public_input.continuous_page_headers");
    for (st, start) in [("2^20", "0x100000"), ("2^62", "0x4000000000000000")] {
        for e in [0u32, 1, 16, 20, 24, 26, 27, 28, 30, 31, 32, 33, 40, 48, 56, 58, 60, 62, 63, 64, 96, 128, 250] {
            let size = format!("0x{:x}", num_bigint::BigUint::from(1u8) << e);
            let hdr = json!([{"start_address": start, "size": size, "hash": "0x1", "prod": "0x1"}]);
            out.push(Case { base: bi, desc: format!("{}page header appended: start {} size 2^{}", tag, st, e), class: format!("{}page-header:size", tag), value: Input::Edit { base: shared.clone(), path: path.clone(), value: hdr } });
        }
    }
    out
}

pub fn run(ctx: &Ctx) -> Report {
    let mut rep = Report::new(
        "C17",
        "exploration",
        "honest proofs of this build with every numeric field (configuration, public-input scalars, segment bounds, dynamic \
         parameters, nonce) set to each of {0, 1, 2^16, 2^32, 2^40, 2^64-1, 2^64, 2^128, p-1, p-2}, plus consistent \
         re-declarations (trace exponent +1/+8/+40/+44 with heights, FRI sizes and step count following; blow-up exponent 1/16 with \
         heights; query count 48/49/2^16/2^40; friendly-layer count everywhere; segments near 2^64); each case verified in a worker \
         process (address space capped) with CPU time and peak RSS measured by getrusage. Oracle: CPU <= 5 s, RSS <= 1 GiB \
         (honest: ~0.1 s, ~20 MB), the worker neither dies nor has to be killed. Two further subjects run in the same workers: validate_public_input + \
         verify_public_input called directly on every native proof's public input (every numeric field at the extremes and at \
         2^27+3, 2^30+3), and the proof FILE through the parser and the CLI conversion (every number of the JSON document at \
         {0, 1, 2^16, 2^22, 2^27, 2^32-1, 2^32, 2^40, 2^63, 2^64-1}), and the parser's own proof structure in its serde form \
         (what the wasm binding accepts) through the CLI conversion with every declared count at the same extremes. Non-trivial: every case other than the honest \
         one; distinct by (proof, field, value)",
    );
    rep.trust("getrusage / /proc CPU accounting; thresholds 50x above the honest cost so only work proportional to a field's VALUE trips them");
    let quick = ctx.quick();
    let mut bs = bases(ctx, !quick);
    if quick {
        bs.truncate(1);
    }
    let mut cases: Vec<Case> = Vec::new();
    for (i, b) in bs.iter().enumerate() {
        cases.extend(cases_for(i, b));
    }
    // second subject: validate_public_input + verify_public_input called directly on every native proof's
    // public input with every numeric field at the extremes
    let n_verify_bases = bs.len();
    let all_bases = bases(ctx, true);
    for b in all_bases {
        let bi = bs.len();
        let shared = Arc::new(b.value.clone());
        for p in numeric_paths(&b.value) {
            let ps = jw::path_str(&p);
            if !ps.starts_with("public_input") {
                continue;
            }
            let menu: Vec<Value> = match jw::get(&b.value, &p).unwrap() {
                Value::String(_) => extreme_felts().iter().map(|m| Value::String(fhex(m))).chain([Value::String("0x8000003".into()), Value::String("0x40000003".into())]).collect(),
                Value::Number(_) => [0u64, 1, 1 << 16, 1 << 27, 1 << 32, 1 << 40, u64::MAX].iter().map(|m| json!(m)).collect(),
                _ => vec![],
            };
            for m in menu {
                if jw::get(&b.value, &p) != Some(&m) {
                    cases.push(Case { base: bi, desc: format!("pubin: {} = {}", ps, m), class: format!("pubin:{}", jw::path_class(&p)), value: Input::Edit { base: shared.clone(), path: p.clone(), value: m.clone() } });
                }
            }
        }
        cases.extend(page_header_cases(bi, &shared, "pubin: "));
        bs.push(Base { name: b.name.clone(), layout: format!("pubin:{}", b.layout), value: b.value });
    }
    let _ = n_verify_bases;
    // third subject: the proof file itself through the parser + conversion, every number of the document
    // (proof parameters, public input, segments, public-memory addresses / pages, dynamic parameters) at extremes
    {
        let files = crate::refm::stonefile::native_proofs(ctx);
        let take = if quick { 2 } else { files.len() };
        // quick: the first file and, if present, the dynamic one
        let mut picked: Vec<&crate::refm::stonefile::ProofFile> = Vec::new();
        for f in files.iter() {
            if picked.len() < take.min(1) || f.loaded.meta.layout == "dynamic" || !quick {
                picked.push(f);
            }
        }
        for (pidx, pf) in picked.into_iter().enumerate() {
            let doc: Value = match serde_json::from_str(&pf.text) {
                Ok(d) => d,
                Err(_) => continue,
            };
            let bi = bs.len();
            cases.push(Case { base: bi, desc: "parse: unmodified file".into(), class: "parse:honest".into(), value: Input::Full(doc.clone()) });
            let shared_doc = Arc::new(doc.clone());
            let n_cells = doc["public_input"]["public_memory"].as_array().map(|a| a.len()).unwrap_or(0);
            let mut n_dyn_seen = 0usize;
            for l in jw::leaves(&doc) {
                let ps = jw::path_str(&l);
                if !(ps.starts_with("public_input") || ps.starts_with("proof_parameters")) || !jw::get(&doc, &l).map(|x| x.is_number()).unwrap_or(false) {
                    continue;
                }
                if ps.contains("public_memory[") {
                    let keep = [0usize, 1, n_cells / 2, n_cells.saturating_sub(1)].iter().any(|i| ps.contains(&format!("public_memory[{}].", i)));
                    if !keep {
                        continue;
                    }
                }
                let dynp = ps.contains("dynamic_params");
                if dynp && quick {
                    // 340 parameters: every 8th in the quick tier
                    n_dyn_seen += 1;
                    if n_dyn_seen % 8 != 1 {
                        continue;
                    }
                }
                let menu: Vec<u64> = if dynp { vec![1 << 27, u32::MAX as u64, 1 << 40, u64::MAX] } else { vec![0, 1, 1 << 16, 1 << 22, 1 << 27, u32::MAX as u64, 1 << 32, 1 << 40, 1 << 63, u64::MAX] };
                for m in menu {
                    let nv = json!(m);
                    if jw::get(&doc, &l) != Some(&nv) {
                        cases.push(Case { base: bi, desc: format!("parse: {} = {}", ps, m), class: format!("parse:{}", jw::path_class(&l)), value: Input::Edit { base: shared_doc.clone(), path: l.clone(), value: nv } });
                    }
                }
            }
            // numbers that live inside annotation TEXT (layer, row, column and node numbers): one line of each kind
            // re-written, and one appended decommitment line of a far-away layer
            if let Some(ann) = doc["annotations"].as_array() {
                let find = |needle: &str| ann.iter().position(|a| a.as_str().map(|s| s.contains(needle)).unwrap_or(false));
                let mut text_cases: Vec<(String, usize, String)> = Vec::new(); // (desc, line, new text)
                for big in [1u64 << 16, 1 << 24, 1 << 27, u32::MAX as u64, 1 << 40, u64::MAX] {
                    if let Some(i) = find("/Decommitment/Layer 1: For node ") {
                        let s0 = ann[i].as_str().unwrap();
                        text_cases.push((format!("layer label -> {}", big), i, s0.replacen("/Decommitment/Layer 1:", &format!("/Decommitment/Layer {}:", big), 1)));
                        if let Some(k) = s0.find("For node ") {
                            let tail = &s0[k + 9..];
                            let end = tail.find(':').unwrap_or(0);
                            text_cases.push((format!("node number -> {}", big), i, format!("{}For node {}{}", &s0[..k], big, &tail[end..])));
                        }
                    }
                    if let Some(i) = find("/Decommitment/Layer 1: Row ") {
                        let s0 = ann[i].as_str().unwrap();
                        if let (Some(k), Some(c)) = (s0.find(": Row "), s0.find(", Column ")) {
                            text_cases.push((format!("row number -> {}", big), i, format!("{}: Row {}{}", &s0[..k], big, &s0[c..])));
                            let after = &s0[c + 9..];
                            let end = after.find(':').unwrap_or(0);
                            text_cases.push((format!("column number -> {}", big), i, format!("{}, Column {}{}", &s0[..c], big, &after[end..])));
                        }
                    }
                    if let Some(i) = find("/FRI/Commitment/Layer 1: Commitment") {
                        let s0 = ann[i].as_str().unwrap();
                        text_cases.push((format!("commitment layer label -> {}", big), i, s0.replacen("/Commitment/Layer 1:", &format!("/Commitment/Layer {}:", big), 1)));
                    }
                }
                for (d, i, t) in text_cases {
                    cases.push(Case { base: bi, desc: format!("parse: annotation text, {}", d), class: "parse:annotation-number".into(),
                        value: Input::Edit { base: shared_doc.clone(), path: jw::parse_path(&format!("annotations[{}]", i)), value: Value::String(t) } });
                }
            }
            bs.push(Base { name: pf.name.clone(), layout: "parse:".into(), value: Value::Null });
            // fourth subject: the parsed structure itself (serde form), its declared counts at extremes
            if quick && pidx > 0 {
                continue; // the serde form of the largest file is several MB per case: thorough tier only
            }
            if let Ok(parsed) = swiftness_proof_parser::parse(pf.text.clone()) {
                if let Ok(pv) = serde_json::to_value(&parsed) {
                    let bi = bs.len();
                    cases.push(Case { base: bi, desc: "transform: unmodified structure".into(), class: "transform:honest".into(), value: Input::Full(pv.clone()) });
                    let shared_pv = Arc::new(pv.clone());
                    for l in jw::leaves(&pv) {
                        // numbers that are object members (the digits of big integers sit in arrays)
                        if !matches!(l.last(), Some(jw::Seg::Key(_))) || !jw::get(&pv, &l).map(|x| x.is_number()).unwrap_or(false) {
                            continue;
                        }
                        let ps = jw::path_str(&l);
                        if ps.contains("dynamic_params") {
                            continue;
                        }
                        for m in [0u64, 1, 1 << 16, 1 << 26, u32::MAX as u64, 1 << 32, 1 << 40, 1 << 63, u64::MAX] {
                            let nv = json!(m);
                            if jw::get(&pv, &l) != Some(&nv) {
                                cases.push(Case { base: bi, desc: format!("transform: {} = {}", ps, m), class: format!("transform:{}", jw::path_class(&l)), value: Input::Edit { base: shared_pv.clone(), path: l.clone(), value: nv } });
                            }
                        }
                    }
                    bs.push(Base { name: pf.name.clone(), layout: "transform:".into(), value: Value::Null });
                }
            }
        }
    }
    let inputs: Vec<(String, Input)> = cases.iter().map(|c| (bs[c.base].layout.clone(), c.value.clone())).collect();
    let outcomes = run_pool(&inputs, 16);
    let mut max_cpu = 0u64;
    let mut max_rss = 0u64;
    let mut honest_cpu = 0u64;
    for (c, o) in cases.iter().zip(outcomes.iter()) {
        let b = &bs[c.base];
        // the materialised document is only built for a violation
        let mk_replay = || json!({"kind": "resource", "proof": b.name, "desc": c.desc, "layout": b.layout, "mutant": c.value.materialize()});
        if c.class != "honest" {
            rep.nontrivial_case(&format!("{}|{}", b.name, c.desc));
        }
        match o {
            Outcome::Done { verdict, cpu_ms, maxrss_kb } => {
                max_cpu = max_cpu.max(*cpu_ms);
                max_rss = max_rss.max(*maxrss_kb);
                if c.class == "transform:honest" && verdict != "ok" {
                    rep.machinery(&format!("C17: unmodified parsed structure of {} not converted in the worker: {}", b.name, verdict));
                }
                if c.class == "parse:honest" && verdict != "ok" {
                    rep.machinery(&format!("C17: unmodified file {} not parsed in the worker: {}", b.name, verdict));
                }
                if c.class == "honest" {
                    honest_cpu = honest_cpu.max(*cpu_ms);
                    if verdict != "ok" {
                        rep.machinery(&format!("C17: honest proof {} not accepted in the worker: {}", b.name, verdict));
                    }
                }
                let over = *cpu_ms > CPU_CAP_MS || *maxrss_kb > RSS_CAP_KB;
                let vshort = verdict.split(':').next().unwrap_or("?");
                rep.eval(&format!("{}:{}", if over { "OVER-CAP" } else { "within-caps" }, vshort));
                rep.sample(&format!("{}:{}", vshort, c.class.len() % 5), json!({"proof": b.name, "case": c.desc, "verdict": verdict, "cpu_ms": cpu_ms, "maxrss_kb": maxrss_kb}));
                if over {
                    rep.violation(&format!("resource:{}:{}", c.class, if *cpu_ms > CPU_CAP_MS { "cpu" } else { "memory" }),
                        &format!("{} [{}]: verification used {} ms CPU / {} kB RSS (caps {} ms / {} kB)", b.name, c.desc, cpu_ms, maxrss_kb, CPU_CAP_MS, RSS_CAP_KB), mk_replay());
                }
            }
            Outcome::Runaway { cpu_ms } => {
                rep.eval("RUNAWAY:killed");
                rep.violation(&format!("resource:{}:runaway", c.class), &format!("{} [{}]: verification still running after {} s wall / {} ms CPU - killed", b.name, c.desc, WALL_KILL_S, cpu_ms), mk_replay());
            }
            Outcome::Died { status } => {
                rep.eval("DIED:worker");
                rep.violation(&format!("resource:{}:abort", c.class), &format!("{} [{}]: the verifier process died ({}) - allocation failure / abort", b.name, c.desc, status), mk_replay());
            }
            Outcome::Starved => {
                rep.eval("starved");
                rep.machinery(&format!("C17: case {} [{}] got no CPU within the wall cap twice (machine overloaded?)", b.name, c.desc));
            }
        }
    }
    rep.extra.insert("max_cpu_ms".into(), json!(max_cpu));
    rep.extra.insert("max_rss_kb".into(), json!(max_rss));
    rep.extra.insert("honest_cpu_ms".into(), json!(honest_cpu));
    rep.bound_completed = format!("{} proofs on build {}; {} cases", bs.len(), build_name(), cases.len());
    rep
}

pub fn replay(_ctx: &Ctx, case: &Value) -> super::ReplayResult {
    let layout = case["layout"].as_str().ok_or("layout")?.to_string();
    let o = run_pool(&[(layout, Input::Full(case["mutant"].clone()))], 1);
    let bad = !matches!(&o[0], Outcome::Done { cpu_ms, maxrss_kb, .. } if *cpu_ms <= CPU_CAP_MS && *maxrss_kb <= RSS_CAP_KB);
    let class = match &o[0] {
        Outcome::Done { verdict, .. } => format!("done verdict={} within_caps={}", verdict, !bad),
        Outcome::Runaway { .. } => "runaway (killed)".to_string(),
        Outcome::Died { status } => format!("died {}", status),
        Outcome::Starved => "starved".to_string(),
    };
    Ok((bad, class))
}
