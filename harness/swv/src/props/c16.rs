//! C16 - constraints and DEEP terms get independent random coefficients.
use crate::kit::{b2f, f2b, fhex, fu, panics, report::Report, Ctx, SplitMix};
use crate::refm::{stonefile::{self, ProofFile}, zint};
use crate::with_layout;
use rayon::prelude::*;
use serde_json::{json, Value};
use starknet_crypto::Felt;
use std::collections::HashMap;
use swiftness_air::{layout::LayoutTrait, public_memory::PublicInput};
use swiftness_transcript::transcript::Transcript;

pub struct Setting<L: LayoutTrait> {
    pub ie: L::InteractionElements,
    pub mask: Vec<Felt>,
    pub point: Felt,
    pub trace_size: Felt,
    pub trace_gen: Felt,
}

pub fn setting<L: LayoutTrait>(pf: &ProofFile, rng: &mut SplitMix) -> Setting<L> {
    let p = &pf.loaded.proof;
    let mut t = Transcript::new(rng.felt());
    let c = L::traces_commit(&mut t, &p.unsent_commitment.traces, p.config.traces.clone());
    let lt = pf.loaded.meta.log_trace;
    Setting {
        ie: c.interaction_elements,
        mask: rng.felts(L::MASK_SIZE),
        point: rng.felt(),
        trace_size: b2f(&crate::kit::pow2(lt)),
        trace_gen: b2f(&zint::root_of_unity(lt)),
    }
}

pub fn comp<L: LayoutTrait>(s: &Setting<L>, pi: &PublicInput, coeffs: &[Felt]) -> Result<Felt, String> {
    match panics::catch(|| L::eval_composition_polynomial(&s.ie, pi, &s.mask, coeffs, &s.point, &s.trace_size, &s.trace_gen)) {
        Ok(Ok(v)) => Ok(v),
        Ok(Err(e)) => Err(format!("{:?}", e)),
        Err(p) => Err(format!("panic {}", p.site())),
    }
}

fn unit(n: usize, i: usize) -> Vec<Felt> {
    let mut v = vec![Felt::ZERO; n];
    v[i] = Felt::ONE;
    v
}

/// Per-position terms t_i = f(e_i) of the composition evaluator.
fn comp_terms<L: LayoutTrait>(s: &Setting<L>, pi: &PublicInput) -> Result<Vec<Felt>, String>
where
    L::InteractionElements: Sync,
{
    (0..L::N_CONSTRAINTS).into_par_iter().map(|i| comp::<L>(s, pi, &unit(L::N_CONSTRAINTS, i))).collect()
}

fn check_linear<L: LayoutTrait>(s: &Setting<L>, pi: &PublicInput, terms: &[Felt], rng: &mut SplitMix) -> Vec<String> {
    let n = L::N_CONSTRAINTS;
    let mut bad = Vec::new();
    match comp::<L>(s, pi, &vec![Felt::ZERO; n]) {
        Ok(v) if v == Felt::ZERO => {}
        other => bad.push(format!("f(0) = {:?}", other.map(|x| fhex(&x)))),
    }
    let sum: Felt = terms.iter().fold(Felt::ZERO, |a, b| a + *b);
    match comp::<L>(s, pi, &vec![Felt::ONE; n]) {
        Ok(v) if v == sum => {}
        _ => bad.push("f(sum e_i) != sum f(e_i)".into()),
    }
    let c = rng.felts(n);
    let a = rng.felt();
    let want: Felt = c.iter().zip(terms).fold(Felt::ZERO, |acc, (ci, ti)| acc + *ci * *ti);
    match comp::<L>(s, pi, &c) {
        Ok(v) if v == want => {}
        _ => bad.push("f(c) != sum c_i f(e_i) for a random c".into()),
    }
    let ac: Vec<Felt> = c.iter().map(|x| a * *x).collect();
    match comp::<L>(s, pi, &ac) {
        Ok(v) if v == a * want => {}
        _ => bad.push("f(a*c) != a*f(c)".into()),
    }
    bad
}

/// Every interaction element (Fiat-Shamir challenge of the interaction phase) must be CONSUMED: changing one of
/// them alone changes the composition value for a random coefficient vector.  (For the dynamic layout this is
/// run with every builtin enabled.)
fn element_sensitivity<L: LayoutTrait>(s: &Setting<L>, pi: &PublicInput, layout: &str, rng: &mut SplitMix, rep: &mut Report)
where
    L::InteractionElements: serde::Serialize + serde::de::DeserializeOwned,
{
    let c = rng.felts(L::N_CONSTRAINTS);
    let base = match comp::<L>(s, pi, &c) {
        Ok(v) => v,
        Err(_) => return,
    };
    let v0 = match serde_json::to_value(&s.ie) {
        Ok(v) => v,
        Err(_) => return,
    };
    let keys: Vec<String> = v0.as_object().map(|o| o.keys().cloned().collect()).unwrap_or_default();
    for k in keys {
        let mut v1 = v0.clone();
        let cur = match v1[&k].as_str().and_then(|h| Felt::from_hex(h).ok()) {
            Some(f) => f,
            None => continue,
        };
        v1[&k] = Value::String(fhex(&(cur + Felt::ONE)));
        let ie2: L::InteractionElements = match serde_json::from_value(v1) {
            Ok(x) => x,
            Err(_) => continue,
        };
        let s2 = Setting::<L> { ie: ie2, mask: s.mask.clone(), point: s.point, trace_size: s.trace_size, trace_gen: s.trace_gen };
        let used = matches!(comp::<L>(&s2, pi, &c), Ok(v) if v != base);
        rep.eval(if used { "interaction-element:consumed" } else { "interaction-element:IGNORED" });
        rep.nontrivial_case(&format!("ie|{}|{}", layout, k));
        if !used {
            rep.violation(&format!("composition:{}:interaction-element-ignored:{}", layout, k),
                &format!("{}: changing the interaction element `{}` alone does not change the composition value (the challenge is not consumed, or another one is used in its place)", layout, k),
                json!({"kind": "layout", "layout": layout}));
        }
    }
}

/// Every builtin's memory segment is tied to the trace by a boundary constraint on its first address: changing
/// `begin_addr` of one builtin segment alone must change the composition value (a constraint reading ANOTHER
/// segment's address would leave that builtin's cells unconstrained).
fn segment_sensitivity<L: LayoutTrait>(s: &Setting<L>, pi: &PublicInput, layout: &str, rng: &mut SplitMix, rep: &mut Report) {
    let c = rng.felts(L::N_CONSTRAINTS);
    let base = match comp::<L>(s, pi, &c) {
        Ok(v) => v,
        Err(_) => return,
    };
    let v0 = serde_json::to_value(pi).unwrap();
    let n = v0["segments"].as_array().map(|a| a.len()).unwrap_or(0);
    for i in 3..n {
        let mut v1 = v0.clone();
        let cur = match v1["segments"][i]["begin_addr"].as_str().and_then(|h| Felt::from_hex(h).ok()) {
            Some(f) => f,
            None => continue,
        };
        v1["segments"][i]["begin_addr"] = Value::String(fhex(&(cur + fu(12345))));
        let pi2: PublicInput = match serde_json::from_value(v1) {
            Ok(p) => p,
            Err(_) => continue,
        };
        let used = matches!(comp::<L>(s, &pi2, &c), Ok(v) if v != base);
        rep.eval(if used { "segment-address:consumed" } else { "segment-address:IGNORED" });
        rep.nontrivial_case(&format!("seg|{}|{}", layout, i));
        if !used {
            rep.violation(&format!("composition:{}:builtin-segment-address-ignored:{}", layout, i),
                &format!("{}: changing begin_addr of builtin segment #{} alone does not change the composition value", layout, i),
                json!({"kind": "layout", "layout": layout}));
        }
    }
}

// ------------------------------------------------------------------ DEEP evaluator
pub struct MaskEntry {
    pub column: usize,
    /// row offset r: the term divides by (x - g^r z); None for the composition columns (x - z^2)
    pub offset: Option<u64>,
}

fn oods_eval<L: LayoutTrait>(pi: &PublicInput, cols: &[Felt], oods: &[Felt], coeffs: &[Felt], x: &Felt, z: &Felt, g: &Felt) -> Result<Felt, String> {
    match panics::catch(|| L::eval_oods_polynomial(pi, cols, oods, coeffs, x, z, g)) {
        Ok(Ok(v)) => Ok(v),
        Ok(Err(e)) => Err(format!("{:?}", e)),
        Err(p) => Err(format!("panic {}", p.site())),
    }
}

/// Recover, by probing the real evaluator, which column and row offset every DEEP term
/// refers to, and check its dependence on exactly one column / one out-of-domain value.
pub fn probe_mask<L: LayoutTrait>(pi: &PublicInput, n_cols: usize, log_trace: u32, rng: &mut SplitMix) -> Result<(Vec<MaskEntry>, Vec<String>), String> {
    let n = L::MASK_SIZE + L::CONSTRAINT_DEGREE;
    let g = b2f(&zint::root_of_unity(log_trace));
    let (x, z) = (rng.felt(), rng.felt());
    // table g^r * z -> r
    let size = 1u64 << log_trace;
    let mut table: HashMap<Felt, u64> = HashMap::with_capacity(size as usize);
    let mut cur = z;
    for r in 0..size {
        table.insert(cur, r);
        cur *= g;
    }
    let z2 = z * z;
    let zero_o = vec![Felt::ZERO; n];
    let ones: Vec<Felt> = vec![Felt::ONE; n_cols];
    let ramp: Vec<Felt> = (0..n_cols).map(|c| fu(c as u64 + 1)).collect();
    let zero_c = vec![Felt::ZERO; n_cols];
    let rows: Vec<Result<(MaskEntry, Vec<String>), String>> = (0..n)
        .into_par_iter()
        .map(|i| {
            let e = unit(n, i);
            let mut bad = Vec::new();
            let v1 = oods_eval::<L>(pi, &ones, &zero_o, &e, &x, &z, &g)?; // 1/(x - shift)
            let v2 = oods_eval::<L>(pi, &ramp, &zero_o, &e, &x, &z, &g)?; // (c+1)/(x - shift)
            if v1 == Felt::ZERO {
                return Ok((MaskEntry { column: usize::MAX, offset: None }, vec![format!("term {} is identically zero in the columns", i)]));
            }
            let inv = v1.inverse().unwrap();
            let shift = x - inv; // = g^r z  or z^2
            let cf = v2 * inv - Felt::ONE;
            let column = f2b(&cf).to_u64_digits().first().cloned().unwrap_or(0) as usize;
            if cf != fu(column as u64) || column >= n_cols {
                bad.push(format!("term {} does not read a single column (ratio {})", i, fhex(&cf)));
            }
            let offset = if i >= L::MASK_SIZE {
                if shift != z2 {
                    bad.push(format!("composition term {} is not opened at z^2", i));
                }
                None
            } else {
                match table.get(&shift) {
                    Some(r) => Some(*r),
                    None => {
                        bad.push(format!("term {} is not opened at g^r * z for any r", i));
                        None
                    }
                }
            };
            // depends on exactly its own out-of-domain value: f(cols=0, oods=e_j) = -[j==i]/(x-shift)
            let own = oods_eval::<L>(pi, &zero_c, &unit(n, i), &e, &x, &z, &g)?;
            if own != Felt::ZERO - v1 {
                bad.push(format!("term {} does not subtract oods_values[{}]", i, i));
            }
            let all = oods_eval::<L>(pi, &zero_c, &vec![Felt::ONE; n], &e, &x, &z, &g)?;
            if all != own {
                bad.push(format!("term {} depends on an out-of-domain value other than its own", i));
            }
            Ok((MaskEntry { column, offset }, bad))
        })
        .collect();
    let mut entries = Vec::new();
    let mut bads = Vec::new();
    for r in rows {
        let (e, b) = r?;
        entries.push(e);
        bads.extend(b);
    }
    Ok((entries, bads))
}

fn n_columns(pf: &ProofFile) -> usize {
    let c = &pf.loaded.proof.config.traces;
    (f2b(&c.original.n_columns).to_u64_digits().first().cloned().unwrap_or(0) + f2b(&c.interaction.n_columns).to_u64_digits().first().cloned().unwrap_or(0)) as usize + 2
}

fn one_layout<L: LayoutTrait>(ctx: &Ctx, pf: &ProofFile, rep: &mut Report)
where
    L::InteractionElements: Sync + serde::Serialize + serde::de::DeserializeOwned,
{
    let layout = pf.loaded.meta.layout.clone();
    let pi = &pf.loaded.proof.public_input;
    let mut rng = ctx.rng(0x1600 + layout.len() as u64);
    // ---- composition: two random settings
    for k in 0..2 {
        let s = setting::<L>(pf, &mut rng);
        match comp_terms::<L>(&s, pi) {
            Err(e) => {
                rep.eval("composition:evaluator-fails");
                rep.violation(&format!("composition:{}:evaluator-fails", layout), &format!("{}: eval_composition_polynomial fails on an honest public input: {}", layout, e), json!({"kind": "layout", "layout": layout}));
            }
            Ok(terms) => {
                let zeros: Vec<usize> = terms.iter().enumerate().filter(|(_, t)| **t == Felt::ZERO).map(|(i, _)| i).collect();
                rep.evals("composition:term-nonzero", (terms.len() - zeros.len()) as u64);
                rep.evals("composition:term-zero", zeros.len() as u64);
                for i in 0..terms.len() {
                    rep.nontrivial_case(&format!("comp|{}|{}", layout, i));
                }
                if layout != "dynamic" && k == 0 {
                    element_sensitivity::<L>(&s, pi, &layout, &mut rng, rep);
                    segment_sensitivity::<L>(&s, pi, &layout, &mut rng, rep);
                }
                if layout != "dynamic" {
                    for i in &zeros {
                        rep.violation(&format!("composition:{}:position-vanishes", layout), &format!("{}: constraint coefficient {} contributes nothing (point #{})", layout, i, k), json!({"kind": "layout", "layout": layout, "position": i}));
                    }
                } else if k == 0 {
                    dynamic_masks::<L>(ctx, pf, &s, &terms, rep);
                }
                let bad = check_linear::<L>(&s, pi, &terms, &mut rng);
                rep.eval(if bad.is_empty() { "composition:linear" } else { "composition:not-linear" });
                for b in bad {
                    rep.violation(&format!("composition:{}:not-linear", layout), &format!("{}: {}", layout, b), json!({"kind": "layout", "layout": layout}));
                }
                if k == 0 {
                    rep.sample(&format!("comp-{}", layout), json!({"layout": layout, "n_constraints": L::N_CONSTRAINTS, "vanishing_positions": zeros.len(), "first_term": fhex(&terms[0])}));
                }
            }
        }
    }
    // ---- DEEP evaluator
    let nc = n_columns(pf);
    match probe_mask::<L>(pi, nc, pf.loaded.meta.log_trace, &mut rng) {
        Err(e) => {
            rep.eval("oods:evaluator-fails");
            rep.violation(&format!("oods:{}:evaluator-fails", layout), &format!("{}: eval_oods_polynomial fails: {}", layout, e), json!({"kind": "layout", "layout": layout}));
        }
        Ok((entries, bads)) => {
            rep.evals("oods:term-probed", entries.len() as u64 * 4);
            for i in 0..entries.len() {
                rep.nontrivial_case(&format!("oods|{}|{}", layout, i));
            }
            for b in &bads {
                rep.violation(&format!("oods:{}:{}", layout, b.split(' ').skip(2).take(4).collect::<Vec<_>>().join("-")), &format!("{}: {}", layout, b), json!({"kind": "layout", "layout": layout}));
            }
            // no two mask positions share (column, offset) - static layouts only (the dynamic
            // layout parks the terms of unused components at (0, 0))
            if layout != "dynamic" {
                let mut seen: HashMap<(usize, Option<u64>), usize> = HashMap::new();
                for (i, e) in entries.iter().enumerate() {
                    if let Some(j) = seen.insert((e.column, e.offset), i) {
                        rep.violation(&format!("oods:{}:shared-opening", layout), &format!("{}: DEEP terms {} and {} open the same (column {}, offset {:?})", layout, j, i, e.column, e.offset), json!({"kind": "layout", "layout": layout}));
                    }
                }
            }
            // linearity in the coefficient vector
            let n = L::MASK_SIZE + L::CONSTRAINT_DEGREE;
            let g = b2f(&zint::root_of_unity(pf.loaded.meta.log_trace));
            let (x, z) = (rng.felt(), rng.felt());
            let cols = rng.felts(nc);
            let oo = rng.felts(n);
            let terms: Result<Vec<Felt>, String> = (0..n).into_par_iter().map(|i| oods_eval::<L>(pi, &cols, &oo, &unit(n, i), &x, &z, &g)).collect();
            if let Ok(terms) = terms {
                let c = rng.felts(n);
                let want: Felt = c.iter().zip(&terms).fold(Felt::ZERO, |a, (ci, ti)| a + *ci * *ti);
                let zero_ok = oods_eval::<L>(pi, &cols, &oo, &vec![Felt::ZERO; n], &x, &z, &g) == Ok(Felt::ZERO);
                let lin_ok = oods_eval::<L>(pi, &cols, &oo, &c, &x, &z, &g) == Ok(want);
                let nz = terms.iter().filter(|t| **t != Felt::ZERO).count();
                rep.evals("oods:term-nonzero", nz as u64);
                rep.eval(if zero_ok && lin_ok { "oods:linear" } else { "oods:not-linear" });
                if !zero_ok || !lin_ok {
                    rep.violation(&format!("oods:{}:not-linear", layout), &format!("{}: eval_oods_polynomial is not linear in its coefficient vector", layout), json!({"kind": "layout", "layout": layout}));
                }
                for (i, t) in terms.iter().enumerate() {
                    if *t == Felt::ZERO {
                        rep.violation(&format!("oods:{}:position-vanishes", layout), &format!("{}: DEEP coefficient {} contributes nothing", layout, i), json!({"kind": "layout", "layout": layout, "position": i}));
                    }
                }
            }
            rep.sample(&format!("oods-{}", layout), json!({"layout": layout, "mask_size": L::MASK_SIZE, "columns": nc,
                "first_entries": entries.iter().take(4).map(|e| json!([e.column, e.offset])).collect::<Vec<_>>(),
                "max_offset": entries.iter().filter_map(|e| e.offset).max()}));
        }
    }
}

const USES: [&str; 10] = ["uses_add_mod_builtin", "uses_bitwise_builtin", "uses_ec_op_builtin", "uses_ecdsa_builtin", "uses_keccak_builtin", "uses_mul_mod_builtin",
    "uses_pedersen_builtin", "uses_poseidon_builtin", "uses_range_check96_builtin", "uses_range_check_builtin"];

/// Dynamic layout: sweep the ten uses_* flags.
fn dynamic_masks<L: LayoutTrait>(ctx: &Ctx, pf: &ProofFile, s: &Setting<L>, honest_terms: &[Felt], rep: &mut Report)
where
    L::InteractionElements: Sync + serde::Serialize + serde::de::DeserializeOwned,
{
    let base = serde_json::to_value(&pf.loaded.proof.public_input).unwrap();
    let with_mask = |m: u32| -> PublicInput {
        let mut v = base.clone();
        let dp = v["dynamic_params"].as_object_mut().unwrap();
        for (k, val) in dp.iter_mut() {
            // every row ratio non-zero so that an enabled builtin has a domain
            if k.ends_with("row_ratio") && val.as_u64() == Some(0) {
                *val = json!(2048);
            }
        }
        for (b, name) in USES.iter().enumerate() {
            dp.insert(name.to_string(), json!(((m >> b) & 1) as u64));
        }
        serde_json::from_value(v).unwrap()
    };
    let all_on = match comp_terms::<L>(s, &with_mask(0x3ff)) {
        Ok(t) => t,
        Err(e) => {
            rep.cap(&format!("dynamic: all builtins enabled does not evaluate ({}); mask sweep skipped", e));
            return;
        }
    };
    element_sensitivity::<L>(s, &with_mask(0x3ff), "dynamic", &mut ctx.rng(0x16ee), rep);
    segment_sensitivity::<L>(s, &with_mask(0x3ff), "dynamic", &mut ctx.rng(0x16ef), rep);
    // Z_b: positions that vanish when only builtin b is off
    let mut owner: Vec<Option<usize>> = vec![None; all_on.len()];
    let mut overlap = false;
    for b in 0..10 {
        match comp_terms::<L>(s, &with_mask(0x3ff & !(1 << b))) {
            Ok(t) => {
                for (i, v) in t.iter().enumerate() {
                    if *v == Felt::ZERO && all_on[i] != Felt::ZERO {
                        if owner[i].is_some() {
                            overlap = true;
                        }
                        owner[i] = Some(b);
                    }
                }
            }
            Err(e) => rep.cap(&format!("dynamic: mask without {} does not evaluate: {}", USES[b], e)),
        }
    }
    rep.eval(if overlap { "dynamic:builtin-position-sets-overlap" } else { "dynamic:builtin-position-sets-disjoint" });
    if overlap {
        rep.violation("composition:dynamic:builtin-sets-overlap", "a constraint position vanishes when either of two different builtins is disabled", json!({"kind": "layout", "layout": "dynamic"}));
    }
    // every builtin must own at least one constraint position: a builtin none of whose constraints is
    // switched by its own flag is either unconstrained when enabled or tied to another builtin's flag
    for (b, name) in USES.iter().enumerate() {
        let n = owner.iter().filter(|o| **o == Some(b)).count();
        rep.eval(if n == 0 { "dynamic:builtin-owns-no-position" } else { "dynamic:builtin-owns-positions" });
        if n == 0 {
            rep.violation(&format!("composition:dynamic:builtin-without-own-constraints:{}", name),
                &format!("dynamic: no constraint position is switched by {} alone (its constraints are dropped or follow another builtin's flag)", name),
                json!({"kind": "layout", "layout": "dynamic"}));
        }
    }
    for (i, v) in all_on.iter().enumerate() {
        if *v == Felt::ZERO {
            rep.violation("composition:dynamic:position-vanishes-all-enabled", &format!("dynamic: constraint coefficient {} contributes nothing even with every builtin enabled", i), json!({"kind": "layout", "layout": "dynamic", "position": i}));
        }
    }
    let masks: Vec<u32> = if ctx.quick() { vec![0, 0x3ff, 0x155, 0x2aa, 0x240] } else { (0..1024).collect() };
    let bad: Vec<(u32, usize, bool)> = masks
        .par_iter()
        .flat_map_iter(|&m| {
            let mut out = Vec::new();
            if let Ok(t) = comp_terms::<L>(s, &with_mask(m)) {
                for (i, v) in t.iter().enumerate() {
                    let should_vanish = matches!(owner[i], Some(b) if (m >> b) & 1 == 0);
                    if (*v == Felt::ZERO) != should_vanish {
                        out.push((m, i, should_vanish));
                    }
                }
            }
            out
        })
        .collect();
    rep.evals("dynamic:mask-position", (masks.len() * all_on.len()) as u64);
    for m in &masks {
        rep.nontrivial_case(&format!("dynmask|{}", m));
    }
    for (m, i, sv) in bad.iter().take(5) {
        rep.violation(&format!("composition:dynamic:mask-{}", if *sv { "enabled-builtin-term-survives-disable" } else { "used-position-vanishes" }),
            &format!("dynamic: under uses-mask {:#x} position {} {}", m, i, if *sv { "should vanish (its builtin is off) but does not" } else { "vanishes although its component is enabled" }),
            json!({"kind": "layout", "layout": "dynamic", "mask": m, "position": i}));
    }
    // the honest instance: positions of enabled components are non-zero
    let hp = pf.loaded.proof.public_input.dynamic_params.as_ref().unwrap();
    let hv = serde_json::to_value(hp).unwrap();
    let honest_mask: u32 = USES.iter().enumerate().map(|(b, n)| ((hv[*n].as_u64().unwrap_or(0) & 1) as u32) << b).sum();
    for (i, t) in honest_terms.iter().enumerate() {
        let should_vanish = matches!(owner[i], Some(b) if (honest_mask >> b) & 1 == 0);
        if (*t == Felt::ZERO) && !should_vanish {
            rep.violation("composition:dynamic:position-vanishes", &format!("dynamic (shipped parameters): constraint coefficient {} of an enabled component contributes nothing", i), json!({"kind": "layout", "layout": "dynamic", "position": i}));
        }
    }
    rep.extra.insert("dynamic_positions_per_builtin".into(), json!(USES.iter().enumerate().map(|(b, n)| (n.to_string(), owner.iter().filter(|o| **o == Some(b)).count())).collect::<HashMap<_, _>>()));
    rep.extra.insert("dynamic_masks_swept".into(), json!(masks.len()));
}

fn pick(ctx: &Ctx) -> Vec<ProofFile> {
    // one honest public input per layout (any Stone version / hash: the evaluators do not depend on them)
    let mut seen = std::collections::BTreeSet::new();
    stonefile::corpus(ctx).into_iter().filter(|p| seen.insert(p.loaded.meta.layout.clone())).collect()
}

pub fn run(ctx: &Ctx) -> Report {
    let mut rep = Report::new(
        "C16",
        "exploration",
        "for each of the 7 layouts (honest public input, two seed-derived random assignments of mask / interaction elements / \
         point): every constraint-coefficient position i: f(e_i) != 0 (static layouts: all; dynamic: exactly the positions whose \
         builtin is enabled, swept over uses_* masks - 5 masks quick, all 1024 thorough), f(0)=0, additivity, homogeneity; every \
         DEEP coefficient position: reads exactly one column at one row offset (recovered by probing the real evaluator), \
         subtracts exactly its own out-of-domain value, no two positions share (column, offset), non-zero, linear. \
         Non-trivial: every (layout, position); distinct by (layout, evaluator, position)",
    );
    rep.assume("polynomial identities are tested at seed-derived random points (Schwartz-Zippel, error < 2^-200 per point)");
    rep.trust("Felt arithmetic; Poseidon for deriving interaction elements");
    let files = pick(ctx);
    for pf in &files {
        let l = pf.loaded.meta.layout.as_str();
        with_layout!(l, L, one_layout::<L>(ctx, pf, &mut rep));
    }
    // ---- the coefficient vectors themselves: the DEEP coefficients the real commit phase derives for the proofs
    // native to this build must be 1, a, a^2, ... (pairwise distinct, one per opened value)
    let n_vectors = coefficient_vectors(ctx, &mut rep);
    rep.extra.insert("deep_coefficient_vectors_inspected".into(), json!(n_vectors));
    rep.bound_completed = format!("{} layouts; every coefficient position of both evaluators", files.len());
    rep
}

fn coefficient_vectors(ctx: &Ctx, rep: &mut Report) -> usize {
    let mut n_vectors = 0;
    for pf in crate::refm::stonefile::native_proofs(ctx) {
        let l = pf.loaded.meta.layout.clone();
        let want = with_layout!(l.as_str(), L, L::MASK_SIZE + L::CONSTRAINT_DEGREE);
        match with_layout!(l.as_str(), L, crate::props::common::commit_phase::<L>(&pf.loaded.proof)) {
            Err(e) => rep.cap(&format!("{}: commit phase fails ({}), coefficient vector not inspected", pf.name, e)),
            Ok(c) => {
                n_vectors += 1;
                let v = &c.oods_coefficients;
                let mut bad: Option<String> = None;
                if v.len() != want {
                    bad = Some(format!("{} coefficients for {} opened values", v.len(), want));
                } else if v[0] != Felt::ONE {
                    bad = Some("first coefficient is not 1".into());
                } else {
                    for i in 1..v.len() {
                        if v[i] != v[i - 1] * v[1] {
                            bad = Some(format!("coefficient {} is not coefficient {} times the challenge", i, i - 1));
                            break;
                        }
                    }
                    let set: std::collections::HashSet<_> = v.iter().map(|f| f.to_bytes_be()).collect();
                    if bad.is_none() && set.len() != v.len() {
                        bad = Some("two opened values share a coefficient".into());
                    }
                }
                rep.evals(if bad.is_some() { "deep-coefficients:not-powers" } else { "deep-coefficients:powers-of-the-challenge" }, v.len() as u64);
                rep.nontrivial_case(&format!("coeffvec|{}", pf.name));
                if let Some(b) = bad {
                    rep.violation(&format!("deep-coefficients:{}:not-independent", l), &format!("{}: DEEP coefficient vector derived by stark_commit: {}", pf.name, b), json!({"kind": "coeffvec", "layout": l}));
                }
            }
        }
    }
    n_vectors
}

pub fn replay(ctx: &Ctx, case: &Value) -> super::ReplayResult {
    if case["kind"] == "coeffvec" {
        let mut rep = Report::new("C16", "exploration", "");
        coefficient_vectors(ctx, &mut rep);
        return Ok((!rep.violations.is_empty(), format!("{:?}", rep.violations.keys().collect::<Vec<_>>())));
    }
    let layout = case["layout"].as_str().ok_or("layout")?;
    let files = pick(ctx);
    let pf = files.iter().find(|p| p.loaded.meta.layout == layout).ok_or("no proof for that layout")?;
    let mut rep = Report::new("C16", "exploration", "");
    with_layout!(layout, L, one_layout::<L>(ctx, pf, &mut rep));
    Ok((!rep.violations.is_empty(), format!("{:?}", rep.violations.keys().collect::<Vec<_>>())))
}
