//! C08 - Fiat-Shamir challenges depend on exactly the messages sent before them.
//! Explicit-state BFS over transcript histories on the real `Transcript`, compared on
//! every transition with the reference sponge; injectivity is checked on the whole
//! reachable set.  (Commit-phase ordering and prover-log conformance: see `c08full`.)
use crate::kit::{f2b, fhex, fu, report::Report, Ctx};
use crate::refm::sponge::Sponge;
use num_traits::ToPrimitive;
use rayon::prelude::*;
use serde_json::{json, Value};
use starknet_crypto::Felt;
use std::collections::HashMap;
use swiftness_transcript::transcript::Transcript;

#[derive(Clone, Debug, PartialEq, Eq, Hash)]
pub enum Act {
    AbsorbFelt(u8),
    AbsorbVec(u8),
    AbsorbU64(u8),
    Squeeze,
    SqueezeMany(u8),
}
pub const N_FELT: u8 = 3;
pub const N_VEC: u8 = 5;
pub const N_U64: u8 = 3;

pub struct Menu {
    pub x: Felt,
}
impl Menu {
    fn felt(&self, i: u8) -> Felt {
        match i {
            0 => Felt::ZERO,
            1 => Felt::ONE,
            _ => self.x,
        }
    }
    fn vec(&self, i: u8) -> Vec<Felt> {
        match i {
            0 => vec![],
            1 => vec![Felt::ZERO],
            2 => vec![Felt::ZERO, Felt::ZERO],
            3 => vec![self.x],
            _ => vec![Felt::ZERO, Felt::ONE],
        }
    }
    fn u64v(&self, i: u8) -> u64 {
        match i {
            0 => 0,
            1 => 1,
            _ => u64::MAX,
        }
    }
    /// message vector an absorbing action contributes to the canonical history
    fn message(&self, a: &Act) -> Option<Vec<Felt>> {
        match a {
            Act::AbsorbFelt(i) => Some(vec![self.felt(*i)]),
            Act::AbsorbVec(i) => Some(self.vec(*i)),
            Act::AbsorbU64(i) => Some(vec![fu(self.u64v(*i))]),
            _ => None,
        }
    }
}
pub fn all_actions() -> Vec<Act> {
    let mut v = Vec::new();
    for i in 0..N_FELT {
        v.push(Act::AbsorbFelt(i));
    }
    for i in 0..N_VEC {
        v.push(Act::AbsorbVec(i));
    }
    for i in 0..N_U64 {
        v.push(Act::AbsorbU64(i));
    }
    v.push(Act::Squeeze);
    v.push(Act::SqueezeMany(0));
    v.push(Act::SqueezeMany(2));
    v
}

/// One step on the REAL transcript: (new digest, new counter, outputs)
pub fn impl_step(m: &Menu, digest: Felt, counter: u64, a: &Act) -> (Felt, Felt, Vec<Felt>) {
    let mut t = Transcript::new_with_counter(digest, fu(counter));
    let mut out = Vec::new();
    match a {
        Act::AbsorbFelt(i) => t.read_felt_from_prover(&m.felt(*i)),
        Act::AbsorbVec(i) => t.read_felt_vector_from_prover(&m.vec(*i)),
        Act::AbsorbU64(i) => t.read_uint64_from_prover(m.u64v(*i)),
        Act::Squeeze => out.push(t.random_felt_to_prover()),
        Act::SqueezeMany(k) => out = t.random_felts_to_prover(fu(*k as u64)),
    }
    (*t.digest(), *t.counter(), out)
}
/// The same step on the reference sponge.
pub fn model_step(m: &Menu, s: &Sponge, a: &Act) -> (Sponge, Vec<Felt>) {
    let mut s = s.clone();
    let mut out = Vec::new();
    match a {
        Act::Squeeze => out.push(s.squeeze()),
        Act::SqueezeMany(k) => {
            for _ in 0..*k {
                out.push(s.squeeze());
            }
        }
        _ => s.absorb(&m.message(a).unwrap()),
    }
    (s, out)
}

#[derive(Clone)]
struct St {
    digest: Felt,
    counter: u64,
    /// canonical history: "init|msg;msg;...|squeezes"
    canon: String,
    path: Vec<Act>,
}

fn canon_after(m: &Menu, st: &St, a: &Act, n_out: usize) -> String {
    let mut parts: Vec<&str> = st.canon.rsplitn(2, '|').collect(); // [squeezes, "init|msgs"]
    let sq: usize = parts[0].parse().unwrap();
    let head = parts.pop().unwrap().to_string();
    let _ = parts;
    match m.message(a) {
        Some(msg) => {
            let enc: Vec<String> = msg.iter().map(fhex).collect();
            format!("{}[{}];|0", head, enc.join(","))
        }
        None => format!("{}|{}", head, sq + n_out),
    }
}

struct StepOut {
    parent: usize,
    act: Act,
    digest: Felt,
    counter_f: Felt,
    outs: Vec<Felt>,
    conforms: bool,
    many_ok: bool,
}

pub fn run(ctx: &Ctx) -> Report {
    let mut rep = Report::new(
        "C08",
        "model_checking",
        "explicit-state BFS over histories of transcript operations (absorb felt/vector/u64, squeeze, squeeze_many) from \
         two initial digests; every transition executes the real Transcript and the reference sponge; states are \
         (digest, counter); invariants: conformance, injectivity of state and of challenge w.r.t. the canonical history, \
         pairwise distinct challenges; a state is non-trivial when its history has >= 2 operations",
    );
    rep.trust("Poseidon (starknet-crypto) as the primitive shared by implementation and model");
    rep.assume("collision-freeness of Poseidon on the explored set is observed, not proved");
    let depth: u64 = if ctx.quick() { 5 } else { 7 };
    let menu = Menu { x: ctx.rng(0x0800).felt() };
    let acts = all_actions();
    let mut by_state: HashMap<(Felt, u64), usize> = HashMap::new(); // -> index in `all`
    let mut by_canon: HashMap<String, (Felt, u64)> = HashMap::new();
    let mut by_challenge: HashMap<Felt, String> = HashMap::new(); // challenge -> "canon@counter"
    let mut all: Vec<St> = Vec::new();
    let mut frontier: Vec<usize> = Vec::new();
    for (k, d) in [Felt::ZERO, ctx.rng(0x0801).felt()].iter().enumerate() {
        let st = St { digest: *d, counter: 0, canon: format!("init{}:|0", k), path: vec![] };
        by_state.insert((st.digest, 0), all.len());
        by_canon.insert(st.canon.clone(), (st.digest, 0));
        frontier.push(all.len());
        all.push(st);
    }
    rep.states = all.len() as u64;
    for d in 0..depth {
        let steps: Vec<StepOut> = frontier
            .par_iter()
            .flat_map_iter(|&pi| {
                let st = &all[pi];
                let model = Sponge { digest: st.digest, counter: st.counter };
                acts.iter()
                    .map(|a| {
                        let (dg, cf, outs) = impl_step(&menu, st.digest, st.counter, a);
                        let (ms, mouts) = model_step(&menu, &model, a);
                        let conforms = dg == ms.digest && cf == fu(ms.counter) && outs == mouts;
                        // squeeze_many(k) == k single squeezes on the real code
                        let many_ok = match a {
                            Act::SqueezeMany(k) => {
                                let mut t = Transcript::new_with_counter(st.digest, fu(st.counter));
                                let singles: Vec<Felt> = (0..*k).map(|_| t.random_felt_to_prover()).collect();
                                singles == outs && *t.digest() == dg && *t.counter() == cf
                            }
                            _ => true,
                        };
                        StepOut { parent: pi, act: a.clone(), digest: dg, counter_f: cf, outs, conforms, many_ok }
                    })
                    .collect::<Vec<_>>()
            })
            .collect();
        let mut next = Vec::new();
        for s in steps {
            rep.transitions += 1;
            let parent = all[s.parent].clone();
            let mut path = parent.path.clone();
            path.push(s.act.clone());
            let case = || json!({"kind": "history", "init": fhex(&all[by_canon_root(&parent.canon)].digest), "x": fhex(&menu.x),
                "ops": path.iter().map(|a| format!("{:?}", a)).collect::<Vec<_>>()});
            rep.eval(if s.conforms { "step:conforms" } else { "step:differs" });
            if !s.conforms {
                rep.violation(&format!("transcript:model-mismatch:{}", act_kind(&s.act)),
                    &format!("after {:?} the real transcript differs from the sponge model (history {:?})", s.act, path), case());
                continue;
            }
            if !s.many_ok {
                rep.violation("transcript:squeeze_many", "random_felts_to_prover(k) differs from k single squeezes", case());
            }
            let counter = match f2b(&s.counter_f).to_u64() {
                Some(c) => c,
                None => {
                    rep.violation("transcript:counter-range", "counter left the u64 range", case());
                    continue;
                }
            };
            let canon = canon_after(&menu, &parent, &s.act, s.outs.len());
            // (c) + injectivity of challenges: every challenge value belongs to exactly one (history, position)
            let base_sq: u64 = parent.canon.rsplit('|').next().unwrap().parse().unwrap();
            for (j, o) in s.outs.iter().enumerate() {
                let head = parent.canon.rsplitn(2, '|').nth(1).unwrap();
                let tag = format!("{}@{}", head, base_sq + j as u64);
                match by_challenge.get(o) {
                    Some(prev) if *prev != tag => {
                        rep.violation("transcript:challenge-collision",
                            &format!("the same challenge {} is produced by two different (history, position) pairs: {} and {}", fhex(o), prev, tag), case());
                    }
                    Some(_) => {}
                    None => {
                        by_challenge.insert(*o, tag);
                    }
                }
            }
            // (b) injectivity of the state
            match by_canon.get(&canon) {
                Some(prev) if *prev != (s.digest, counter) => {
                    rep.violation("transcript:nondeterministic", &format!("canonical history {} reaches two different states", canon), case());
                }
                _ => {}
            }
            match by_state.get(&(s.digest, counter)) {
                Some(&idx) => {
                    if all[idx].canon != canon {
                        rep.violation(&format!("transcript:state-collision:{}", act_kind(&s.act)),
                            &format!("two different histories share transcript state: {} and {}", all[idx].canon, canon), case());
                    }
                }
                None => {
                    by_state.insert((s.digest, counter), all.len());
                    by_canon.insert(canon.clone(), (s.digest, counter));
                    next.push(all.len());
                    if path.len() >= 2 {
                        rep.nontrivial_case(&canon);
                    }
                    if all.len() % 5000 == 7 || all.len() < 6 {
                        rep.sample(&format!("s{}", all.len()), json!({"history": canon, "digest": fhex(&s.digest), "counter": counter,
                            "ops": path.iter().map(|a| format!("{:?}", a)).collect::<Vec<_>>()}));
                    }
                    all.push(St { digest: s.digest, counter, canon, path });
                    rep.states += 1;
                }
            }
        }
        rep.max_depth = d + 1;
        frontier = next;
    }
    rep.extra.insert("distinct_challenges".into(), json!(by_challenge.len()));
    rep.extra.insert("distinct_canonical_histories".into(), json!(by_canon.len()));
    rep.bound_completed = format!("depth {} from 2 initial digests, 14 operations per state", depth);
    // second engine (thorough): the same model under stateright; unique-state counts must match
    if !ctx.quick() {
        let n = stateright_count(&menu, &[Felt::ZERO, ctx.rng(0x0801).felt()], depth.min(5));
        // recount the kernel's states up to that depth
        let kernel: u64 = all.iter().filter(|s| s.path.len() as u64 <= depth.min(5)).count() as u64;
        rep.extra.insert("stateright_unique_states".into(), json!(n));
        rep.extra.insert("kernel_states_same_depth".into(), json!(kernel));
        // stateright keys states by (digest, counter, depth); the kernel by (digest, counter): compare on the projection
        if n.1 != kernel {
            rep.machinery(&format!("stateright explored {} distinct (digest,counter) states, kernel {}", n.1, kernel));
        }
        if n.2 > 0 {
            rep.violation("transcript:model-mismatch:stateright", "stateright found a state where implementation and sponge model differ", json!({"kind": "stateright"}));
        }
    }
    #[cfg(feature = "full")]
    crate::props::c08full::run(ctx, &mut rep);
    rep
}

fn by_canon_root(_canon: &str) -> usize {
    if _canon.starts_with("init0") {
        0
    } else {
        1
    }
}
fn act_kind(a: &Act) -> &'static str {
    match a {
        Act::AbsorbFelt(_) => "absorb_felt",
        Act::AbsorbVec(0) => "absorb_vec_empty",
        Act::AbsorbVec(_) => "absorb_vec",
        Act::AbsorbU64(_) => "absorb_u64",
        Act::Squeeze => "squeeze",
        Act::SqueezeMany(_) => "squeeze_many",
    }
}

// ---------------------------------------------------------------- stateright engine
mod sr {
    use super::*;
    use stateright::{Model, Property};

    #[derive(Clone, Debug, PartialEq, Eq, Hash)]
    pub struct S {
        pub digest: [u8; 32],
        pub counter: u64,
        pub model_digest: [u8; 32],
        pub model_counter: u64,
        pub depth: u8,
    }
    pub struct M {
        pub menu_x: Felt,
        pub inits: Vec<Felt>,
        pub max_depth: u8,
    }
    impl Model for M {
        type State = S;
        type Action = Act;
        fn init_states(&self) -> Vec<S> {
            self.inits.iter().map(|d| S { digest: d.to_bytes_be(), counter: 0, model_digest: d.to_bytes_be(), model_counter: 0, depth: 0 }).collect()
        }
        fn actions(&self, s: &S, out: &mut Vec<Act>) {
            if s.depth < self.max_depth {
                out.extend(all_actions());
            }
        }
        fn next_state(&self, s: &S, a: Act) -> Option<S> {
            let m = Menu { x: self.menu_x };
            let (dg, cf, _) = impl_step(&m, Felt::from_bytes_be(&s.digest), s.counter, &a);
            let (ms, _) = model_step(&m, &Sponge { digest: Felt::from_bytes_be(&s.model_digest), counter: s.model_counter }, &a);
            Some(S {
                digest: dg.to_bytes_be(),
                counter: f2b(&cf).to_u64().unwrap_or(u64::MAX),
                model_digest: ms.digest.to_bytes_be(),
                model_counter: ms.counter,
                depth: s.depth + 1,
            })
        }
        fn properties(&self) -> Vec<Property<Self>> {
            vec![Property::<Self>::always("implementation conforms to sponge model", |_, s: &S| {
                s.digest == s.model_digest && s.counter == s.model_counter
            })]
        }
    }
}

/// (unique states incl. depth, distinct (digest,counter) projections, discoveries)
fn stateright_count(menu: &Menu, inits: &[Felt], depth: u64) -> (u64, u64, u64) {
    use stateright::{Checker, Model};
    use std::collections::HashSet;
    use std::sync::{Arc, Mutex};
    let m = sr::M { menu_x: menu.x, inits: inits.to_vec(), max_depth: depth as u8 };
    let seen: Arc<Mutex<HashSet<([u8; 32], u64)>>> = Arc::new(Mutex::new(HashSet::new()));
    let seen2 = seen.clone();
    let checker = m
        .checker()
        .threads(8)
        .visitor(move |path: stateright::Path<sr::S, Act>| {
            let s = path.last_state();
            seen2.lock().unwrap().insert((s.digest, s.counter));
        })
        .spawn_bfs()
        .join();
    let n = checker.unique_state_count() as u64;
    let disc = checker.discoveries().len() as u64;
    let proj = seen.lock().unwrap().len() as u64;
    (n, proj, disc)
}

pub fn replay(ctx: &Ctx, case: &Value) -> super::ReplayResult {
    match case["kind"].as_str() {
        Some("history") => {
            let x = Felt::from_hex(case["x"].as_str().ok_or("x")?).map_err(|e| e.to_string())?;
            let init = Felt::from_hex(case["init"].as_str().ok_or("init")?).map_err(|e| e.to_string())?;
            let menu = Menu { x };
            let ops: Vec<Act> = case["ops"].as_array().ok_or("ops")?.iter().map(|o| parse_act(o.as_str().unwrap_or(""))).collect::<Option<Vec<_>>>().ok_or("bad op")?;
            let (mut d, mut c) = (init, 0u64);
            let mut model = Sponge::new(init);
            let mut log = Vec::new();
            let mut differs = false;
            for a in &ops {
                let (dg, cf, outs) = impl_step(&menu, d, c, a);
                let (ms, mouts) = model_step(&menu, &model, a);
                if dg != ms.digest || cf != fu(ms.counter) || outs != mouts {
                    differs = true;
                }
                log.push(format!("{:?}->({},{})", a, fhex(&dg), fhex(&cf)));
                d = dg;
                c = f2b(&cf).to_u64().unwrap_or(u64::MAX);
                model = ms;
            }
            // a state collision replay: report whether the model says the collision is legitimate
            Ok((differs, format!("impl-vs-model differs={} trace={}", differs, log.join(" "))))
        }
        #[cfg(feature = "full")]
        Some(_) => crate::props::c08full::replay(ctx, case),
        _ => {
            let _ = ctx;
            Err("unknown replay kind".into())
        }
    }
}

fn parse_act(s: &str) -> Option<Act> {
    let num = |s: &str| -> Option<u8> { s.trim_end_matches(')').rsplit('(').next()?.parse().ok() };
    if s.starts_with("AbsorbFelt") {
        Some(Act::AbsorbFelt(num(s)?))
    } else if s.starts_with("AbsorbVec") {
        Some(Act::AbsorbVec(num(s)?))
    } else if s.starts_with("AbsorbU64") {
        Some(Act::AbsorbU64(num(s)?))
    } else if s.starts_with("SqueezeMany") {
        Some(Act::SqueezeMany(num(s)?))
    } else if s == "Squeeze" {
        Some(Act::Squeeze)
    } else {
        None
    }
}
