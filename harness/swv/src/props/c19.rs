//! C19 - parser and CLI conversion hand the verifier exactly what the file says.
//! Exhaustive single-edit sweep over proof files against the independent loader.
use crate::kit::{build_name, jsonwalk as jw, panics::{self, PanicInfo}, report::Report, Ctx};
use crate::props::common::proof_to_value;
use crate::refm::stonefile::{self, ProofFile};
use rayon::prelude::*;
use serde_json::{json, Value};
use swiftness::TransformTo;
use swiftness_stark::types::StarkProof;

pub enum Parsed {
    Ok(Box<StarkProof>),
    Err(String),
    Panic(PanicInfo),
}

/// What the CLI does: parse the text, convert for the verifier.
pub fn parse_and_transform(text: &str) -> Parsed {
    let t = text.to_string();
    match panics::catch(move || swiftness_proof_parser::parse(t).map(|p| -> StarkProof { p.transform_to() })) {
        Ok(Ok(p)) => Parsed::Ok(Box::new(p)),
        Ok(Err(e)) => Parsed::Err(format!("{}", e).chars().take(80).collect()),
        Err(p) => Parsed::Panic(p),
    }
}

#[derive(Clone, Debug)]
pub enum Edit {
    None,
    AnnDelete(usize),
    AnnDuplicate(usize),
    AnnSwapNext(usize),
    /// replace the character at byte offset `pos` of annotation `line` by `ch`
    AnnChar(usize, usize, char),
    AnnTruncateList(usize),
    /// the (first) hex payload of annotation `line` replaced by this hex string (values at and above the field prime)
    AnnValue(usize, String),
    /// set a JSON path of the document to a value
    Set(String, Value),
    /// several paths at once
    SetMany(Vec<(String, Value)>),
    Remove(String),
    RenameKey(String, String, String),
    Insert(String, String, Value),
    /// every annotation of FRI decommitment layer k relabelled as layer 10 + k
    RelabelLayer(usize),
    /// the FRI part extended to `n` step entries (n - 1 committed layers): synthetic commitment and
    /// decommitment annotations with recognisable values for every added layer - layer labels with two digits
    ManyLayers(usize),
    /// every dynamic parameter set to a distinct value (its rank in key order + 1)
    DistinctDynamicParams,
}
impl Edit {
    fn class(&self, doc: &Value) -> String {
        let ann_class = |i: &usize| -> String {
            let s = doc["annotations"][*i].as_str().unwrap_or("");
            match stonefile::scan_line(s) {
                Some(l) => {
                    let p: String = l.path.chars().map(|c| if c.is_ascii_digit() { '#' } else { c }).collect();
                    format!("{}|{}", p.replace("/cpu air/STARK/", ""), l.kind)
                }
                None => "other-line".to_string(),
            }
        };
        match self {
            Edit::None => "none".into(),
            Edit::AnnDelete(i) => format!("delete:{}", ann_class(i)),
            Edit::AnnDuplicate(i) => format!("duplicate:{}", ann_class(i)),
            Edit::AnnSwapNext(i) => format!("swap-next:{}", ann_class(i)),
            Edit::AnnChar(i, _, c) => format!("char-{}:{}", if *c == 'g' { "badhex" } else if *c == 'f' { "lead-f" } else { "hexdigit" }, ann_class(i)),
            Edit::AnnTruncateList(i) => format!("truncate-list:{}", ann_class(i)),
            Edit::AnnValue(i, _) => format!("value-not-below-prime:{}", ann_class(i)),
            Edit::Set(p, _) => format!("set:{}", jw::path_class(&jw::parse_path(p))),
            Edit::SetMany(ps) => format!("set-many:{}", ps.iter().map(|(p, _)| jw::path_class(&jw::parse_path(p))).collect::<Vec<_>>().join("+")),
            Edit::Remove(p) => format!("remove:{}", jw::path_class(&jw::parse_path(p))),
            Edit::RenameKey(p, _, _) => format!("rename-key:{}", p),
            Edit::Insert(p, _, _) => format!("insert:{}", p),
            Edit::RelabelLayer(_) => "relabel-fri-layer".into(),
            Edit::DistinctDynamicParams => "distinct-dynamic-params".into(),
            Edit::ManyLayers(n) => format!("many-layers:{}", n),
        }
    }
    fn to_json(&self) -> Value {
        match self {
            Edit::None => json!({"e": "none"}),
            Edit::AnnDelete(i) => json!({"e": "ann-delete", "line": i}),
            Edit::AnnDuplicate(i) => json!({"e": "ann-duplicate", "line": i}),
            Edit::AnnSwapNext(i) => json!({"e": "ann-swap-next", "line": i}),
            Edit::AnnChar(i, p, c) => json!({"e": "ann-char", "line": i, "pos": p, "ch": c.to_string()}),
            Edit::AnnTruncateList(i) => json!({"e": "ann-truncate-list", "line": i}),
            Edit::AnnValue(i, h) => json!({"e": "ann-value", "line": i, "hex": h}),
            Edit::Set(p, v) => json!({"e": "set", "path": p, "value": v}),
            Edit::SetMany(ps) => json!({"e": "set-many", "sets": ps.iter().map(|(p, v)| json!([p, v])).collect::<Vec<_>>()}),
            Edit::Remove(p) => json!({"e": "remove", "path": p}),
            Edit::RenameKey(p, a, b) => json!({"e": "rename-key", "path": p, "from": a, "to": b}),
            Edit::Insert(p, k, v) => json!({"e": "insert", "path": p, "key": k, "value": v}),
            Edit::RelabelLayer(k) => json!({"e": "relabel-layer", "k": k}),
            Edit::ManyLayers(n) => json!({"e": "many-layers", "n": n}),
            Edit::DistinctDynamicParams => json!({"e": "distinct-dynamic-params"}),
        }
    }
    fn from_json(v: &Value) -> Option<Edit> {
        let u = |k: &str| v.get(k).and_then(|x| x.as_u64()).map(|x| x as usize);
        let s = |k: &str| v.get(k).and_then(|x| x.as_str()).map(|x| x.to_string());
        Some(match v.get("e")?.as_str()? {
            "none" => Edit::None,
            "ann-delete" => Edit::AnnDelete(u("line")?),
            "ann-duplicate" => Edit::AnnDuplicate(u("line")?),
            "ann-swap-next" => Edit::AnnSwapNext(u("line")?),
            "ann-char" => Edit::AnnChar(u("line")?, u("pos")?, s("ch")?.chars().next()?),
            "ann-truncate-list" => Edit::AnnTruncateList(u("line")?),
            "ann-value" => Edit::AnnValue(u("line")?, s("hex")?),
            "set" => Edit::Set(s("path")?, v.get("value")?.clone()),
            "set-many" => Edit::SetMany(v.get("sets")?.as_array()?.iter().map(|x| Some((x.get(0)?.as_str()?.to_string(), x.get(1)?.clone()))).collect::<Option<Vec<_>>>()?),
            "remove" => Edit::Remove(s("path")?),
            "rename-key" => Edit::RenameKey(s("path")?, s("from")?, s("to")?),
            "insert" => Edit::Insert(s("path")?, s("key")?, v.get("value")?.clone()),
            "relabel-layer" => Edit::RelabelLayer(u("k")?),
            "many-layers" => Edit::ManyLayers(u("n")?),
            "distinct-dynamic-params" => Edit::DistinctDynamicParams,
            _ => return None,
        })
    }
    fn apply(&self, doc: &Value) -> Option<Value> {
        let mut d = doc.clone();
        match self {
            Edit::None => {}
            Edit::AnnDelete(i) => {
                d["annotations"].as_array_mut()?.remove(*i);
            }
            Edit::AnnDuplicate(i) => {
                let a = d["annotations"].as_array_mut()?;
                let l = a.get(*i)?.clone();
                a.insert(*i + 1, l);
            }
            Edit::AnnSwapNext(i) => {
                let a = d["annotations"].as_array_mut()?;
                if *i + 1 >= a.len() || a[*i] == a[*i + 1] {
                    return None;
                }
                a.swap(*i, *i + 1);
            }
            Edit::AnnChar(i, pos, ch) => {
                let s = d["annotations"][*i].as_str()?.to_string();
                let mut b: Vec<char> = s.chars().collect();
                if *pos >= b.len() || b[*pos] == *ch {
                    return None;
                }
                b[*pos] = *ch;
                d["annotations"][*i] = Value::String(b.into_iter().collect());
            }
            Edit::AnnValue(i, h) => {
                let s = d["annotations"][*i].as_str()?.to_string();
                let (first, last, _) = hex_positions(&s)?;
                d["annotations"][*i] = Value::String(format!("{}{}{}", &s[..first], h, &s[last + 1..]));
            }
            Edit::AnnTruncateList(i) => {
                let s = d["annotations"][*i].as_str()?.to_string();
                let cut = s.rfind(", ")?;
                d["annotations"][*i] = Value::String(format!("{})", &s[..cut]));
            }
            Edit::Set(p, v) => {
                let slot = jw::get_mut(&mut d, &jw::parse_path(p))?;
                if slot == v {
                    return None;
                }
                *slot = v.clone();
            }
            Edit::SetMany(ps) => {
                for (p, v) in ps {
                    let slot = jw::get_mut(&mut d, &jw::parse_path(p))?;
                    *slot = v.clone();
                }
            }
            Edit::Remove(p) => {
                let path = jw::parse_path(p);
                let (last, parent) = path.split_last()?;
                let par = jw::get_mut(&mut d, &parent.to_vec())?;
                match last {
                    jw::Seg::Key(k) => {
                        par.as_object_mut()?.remove(k)?;
                    }
                    jw::Seg::Idx(i) => {
                        let a = par.as_array_mut()?;
                        if *i >= a.len() {
                            return None;
                        }
                        a.remove(*i);
                    }
                }
            }
            Edit::RenameKey(p, from, to) => {
                let o = jw::get_mut(&mut d, &jw::parse_path(p))?.as_object_mut()?;
                let v = o.remove(from)?;
                o.insert(to.clone(), v);
            }
            Edit::Insert(p, k, v) => {
                jw::get_mut(&mut d, &jw::parse_path(p))?.as_object_mut()?.insert(k.clone(), v.clone());
            }
            Edit::RelabelLayer(k) => {
                let from = format!("/Decommitment/Layer {}:", k);
                let to = format!("/Decommitment/Layer {}:", 10 + k);
                let mut n = 0;
                for a in d["annotations"].as_array_mut()? {
                    if let Some(s) = a.as_str() {
                        if s.contains(&from) {
                            *a = Value::String(s.replace(&from, &to));
                            n += 1;
                        }
                    }
                }
                if n == 0 {
                    return None;
                }
            }
            Edit::ManyLayers(n) => {
                let steps = d["proof_parameters"]["stark"]["fri"]["fri_step_list"].as_array_mut()?;
                let have = steps.len();
                if *n <= have {
                    return None;
                }
                for _ in have..*n {
                    steps.push(json!(1));
                }
                let ann = d["annotations"].as_array_mut()?;
                // after the last commitment line of layer have-1, and after its last decommitment line
                let last_commit = ann.iter().rposition(|a| a.as_str().map(|s| s.contains(&format!("/FRI/Commitment/Layer {}:", have - 1))).unwrap_or(false))?;
                let mut commits = Vec::new();
                for k in have..*n {
                    commits.push(Value::String(format!("P->V[0:32]: /cpu air/STARK/FRI/Commitment/Layer {}: Commitment: Hash({:#x})", k, 0xc000 + k)));
                }
                for (j, c) in commits.into_iter().enumerate() {
                    ann.insert(last_commit + 1 + j, c);
                }
                let last_decommit = ann.iter().rposition(|a| a.as_str().map(|s| s.contains(&format!("/FRI/Decommitment/Layer {}:", have - 1))).unwrap_or(false))?;
                let mut lines = Vec::new();
                for k in have..*n {
                    for j in 0..3usize {
                        lines.push(Value::String(format!("P->V[0:32]: /cpu air/STARK/FRI/Decommitment/Layer {}: Row {}, Column {}: Field Element({:#x})", k, 5, j, 0xa000 + 16 * k + j)));
                    }
                    for j in 0..2usize {
                        lines.push(Value::String(format!("P->V[0:32]: /cpu air/STARK/FRI/Decommitment/Layer {}: For node {}: Hash({:#x})", k, 40 + j, 0xb000 + 16 * k + j)));
                    }
                }
                for (j, l) in lines.into_iter().enumerate() {
                    ann.insert(last_decommit + 1 + j, l);
                }
            }
            Edit::DistinctDynamicParams => {
                let o = d["public_input"]["dynamic_params"].as_object_mut()?;
                if o.is_empty() {
                    return None;
                }
                for (i, (k, v)) in o.iter_mut().enumerate() {
                    // the three parameters the configuration is derived from keep their values
                    if k != "cpu_component_step" && k != "num_columns_first" && k != "num_columns_second" {
                        *v = json!(i as u64 + 1000);
                    }
                }
            }
        }
        Some(d)
    }
}

/// byte offsets (in chars) of interesting positions of the hex payload of a line
fn hex_positions(s: &str) -> Option<(usize, usize, usize)> {
    let open = s.rfind("(0x")?;
    let start = open + 3;
    let chars: Vec<char> = s.chars().collect();
    // s is ASCII in these files: char offset == byte offset
    let mut end = start;
    while end < chars.len() && chars[end].is_ascii_hexdigit() {
        end += 1;
    }
    if end == start {
        return None;
    }
    Some((start, end - 1, end - start))
}

fn annotation_edits(doc: &Value, quick: bool) -> Vec<Edit> {
    let mut out = Vec::new();
    let ann = doc["annotations"].as_array().unwrap();
    for (i, a) in ann.iter().enumerate() {
        let s = a.as_str().unwrap_or("");
        if !(s.starts_with("P->V") || s.starts_with("V->P")) {
            continue;
        }
        out.push(Edit::AnnDelete(i));
        if let Some((first, last, len)) = hex_positions(s) {
            out.push(Edit::AnnChar(i, last, 'g'));
            let cur = s.chars().nth(last).unwrap();
            out.push(Edit::AnnChar(i, last, if cur == '1' { '2' } else { '1' }));
            // the field prime + 5 (a 252-bit number that is not a field element); 2^252 - 1 in the thorough tier
            if len >= 40 && (!quick || i % 4 == 0) {
                out.push(Edit::AnnValue(i, "800000000000011000000000000000000000000000000000000000000000006".into()));
                if !quick {
                    out.push(Edit::AnnValue(i, "fffffffffffffffffffffffffffffffffffffffffffffffffffffffffffffff".into()));
                    out.push(Edit::AnnValue(i, "800000000000011000000000000000000000000000000000000000000000001".into()));
                }
            }
            if !quick {
                if len >= 63 {
                    out.push(Edit::AnnChar(i, first, 'f'));
                }
                out.push(Edit::AnnChar(i, first, 'g'));
            }
        }
        if !quick {
            out.push(Edit::AnnDuplicate(i));
            out.push(Edit::AnnSwapNext(i));
            if s.contains("Field Elements(") {
                out.push(Edit::AnnTruncateList(i));
            }
        }
    }
    out
}

fn structure_edits(doc: &Value) -> Vec<Edit> {
    let mut out = Vec::new();
    let nums: Vec<Value> = vec![json!(0), json!(1), json!(3), json!(7), json!(255), json!(256), json!(300), json!(4294967295u64), json!(4294967296u64)];
    let pp = "proof_parameters";
    let mut paths = vec![
        format!("{}.stark.fri.last_layer_degree_bound", pp), format!("{}.stark.fri.n_queries", pp), format!("{}.stark.fri.proof_of_work_bits", pp),
        format!("{}.stark.log_n_cosets", pp), format!("{}.n_verifier_friendly_commitment_layers", pp), "public_input.n_steps".to_string(),
        "public_input.rc_min".to_string(), "public_input.rc_max".to_string(),
    ];
    let n_steps = doc["proof_parameters"]["stark"]["fri"]["fri_step_list"].as_array().map(|a| a.len()).unwrap_or(0);
    for i in 0..n_steps {
        paths.push(format!("{}.stark.fri.fri_step_list[{}]", pp, i));
    }
    for p in &paths {
        if jw::get(doc, &jw::parse_path(p)).is_none() {
            continue;
        }
        for n in &nums {
            out.push(Edit::Set(p.clone(), n.clone()));
        }
        out.push(Edit::Set(p.clone(), json!("12")));
        out.push(Edit::Set(p.clone(), json!(-1)));
    }
    out.push(Edit::Set(format!("{}.stark.fri.fri_step_list", pp), json!([])));
    out.push(Edit::Set(format!("{}.stark.fri.fri_step_list", pp), json!([0])));
    out.push(Edit::Remove(format!("{}.stark.fri.fri_step_list[0]", pp)));
    out.push(Edit::Remove(format!("{}.n_verifier_friendly_commitment_layers", pp)));
    // layout
    for l in ["foo", "plain", "dynamic", "recursive", "small"] {
        out.push(Edit::Set("public_input.layout".into(), json!(l)));
    }
    // segments
    if let Some(segs) = doc["public_input"]["memory_segments"].as_object() {
        for (k, _) in segs {
            out.push(Edit::RenameKey("public_input.memory_segments".into(), k.clone(), "unknown_segment".into()));
            out.push(Edit::Remove(format!("public_input.memory_segments.{}", k)));
            for f in ["begin_addr", "stop_ptr"] {
                for n in [json!(0), json!(4294967295u64), json!(4294967296u64), json!(-1)] {
                    out.push(Edit::Set(format!("public_input.memory_segments.{}.{}", k, f), n));
                }
            }
        }
        out.push(Edit::Insert("public_input.memory_segments".into(), "mul_mod".into(), json!({"begin_addr": 7, "stop_ptr": 7})));
        out.push(Edit::Insert("public_input.memory_segments".into(), "ec_op".into(), json!({"begin_addr": 9, "stop_ptr": 9})));
    }
    // public memory
    let n_cells = doc["public_input"]["public_memory"].as_array().map(|a| a.len()).unwrap_or(0);
    let picks: Vec<usize> = vec![0, 1, n_cells / 2, n_cells.saturating_sub(1)];
    for &i in &picks {
        if i >= n_cells {
            continue;
        }
        let base = format!("public_input.public_memory[{}]", i);
        for n in [json!(0), json!(4294967295u64), json!(4294967296u64)] {
            out.push(Edit::Set(format!("{}.address", base), n));
        }
        for n in [json!(1), json!(2)] {
            out.push(Edit::Set(format!("{}.page", base), n));
        }
        for v in ["0xg", "g", "12", "0x", "", "0xffffffffffffffffffffffffffffffffffffffffffffffffffffffffffffffff", "0x800000000000011000000000000000000000000000000000000000000000001"] {
            out.push(Edit::Set(format!("{}.value", base), json!(v)));
        }
        out.push(Edit::Remove(base));
    }
    // several continuous pages at once: listed in id order, out of id order, interleaved with the main page,
    // and with the file's first entry on a continuous page
    if n_cells >= 6 {
        let pm = |i: usize| format!("public_input.public_memory[{}].page", i);
        let pa = |i: usize| format!("public_input.public_memory[{}].address", i);
        let (a, b, c) = (n_cells - 3, n_cells - 2, n_cells - 1);
        out.push(Edit::SetMany(vec![(pm(b), json!(1)), (pm(c), json!(2))]));
        out.push(Edit::SetMany(vec![(pm(b), json!(2)), (pm(c), json!(1))]));
        out.push(Edit::SetMany(vec![(pm(a), json!(1)), (pm(c), json!(1))]));
        out.push(Edit::SetMany(vec![(pm(a), json!(2)), (pm(b), json!(1)), (pm(c), json!(2))]));
        out.push(Edit::SetMany(vec![(pm(0), json!(1)), (pm(c), json!(2))]));
        out.push(Edit::SetMany(vec![(pm(0), json!(2)), (pm(1), json!(1))]));
        // two pages whose cells alternate in the file while each page is contiguous in address
        {
            let d = n_cells - 4;
            out.push(Edit::SetMany(vec![
                (pm(d), json!(1)), (pa(d), json!(100000)), (pm(a), json!(2)), (pa(a), json!(200000)),
                (pm(b), json!(1)), (pa(b), json!(100001)), (pm(c), json!(2)), (pa(c), json!(200001)),
            ]));
            out.push(Edit::SetMany(vec![
                (pm(d), json!(2)), (pa(d), json!(200000)), (pm(a), json!(1)), (pa(a), json!(100000)),
                (pm(b), json!(2)), (pa(b), json!(200001)), (pm(c), json!(1)), (pa(c), json!(100001)),
            ]));
        }
        // a continuous page whose addresses cross 2^32 (contiguous over the integers, wrapping in 32-bit words)
        out.push(Edit::SetMany(vec![(pm(b), json!(1)), (pa(b), json!(4294967295u64)), (pm(c), json!(1)), (pa(c), json!(0))]));
        out.push(Edit::SetMany(vec![(pm(b), json!(1)), (pa(b), json!(4294967295u64)), (pm(c), json!(1)), (pa(c), json!(4294967296u64))]));
        out.push(Edit::SetMany(vec![(pm(b), json!(1)), (pa(b), json!(4294967294u64)), (pm(c), json!(1)), (pa(c), json!(4294967295u64))]));
    }
    out.push(Edit::Set("public_input.public_memory".into(), json!([])));
    // dynamic parameters
    match doc["public_input"]["dynamic_params"].as_object() {
        Some(dp) => {
            let keys: Vec<&String> = dp.keys().collect();
            for k in [keys[0], keys[keys.len() / 2], keys[keys.len() - 1]] {
                out.push(Edit::Remove(format!("public_input.dynamic_params.{}", k)));
                for n in [json!(4294967295u64), json!(4294967296u64), json!(-1)] {
                    out.push(Edit::Set(format!("public_input.dynamic_params.{}", k), n));
                }
                out.push(Edit::RenameKey("public_input.dynamic_params".into(), k.clone(), "zzz_unknown_param".into()));
            }
            out.push(Edit::Insert("public_input.dynamic_params".into(), "aaa_extra_param".into(), json!(5)));
            out.push(Edit::Set("public_input.dynamic_params".into(), Value::Null));
            out.push(Edit::Set("public_input.dynamic_params".into(), json!({})));
        }
        None => {
            out.push(Edit::Set("public_input.dynamic_params".into(), json!({"cpu_component_step": 1})));
            out.push(Edit::Set("public_input.dynamic_params".into(), json!({})));
        }
    }
    // FRI decommitment layers relabelled (layer k -> 10 + k): the data of an undeclared layer must not
    // leak into a declared one
    for k in 1..n_steps {
        out.push(Edit::RelabelLayer(k));
    }
    out.push(Edit::DistinctDynamicParams);
    // 11, 12 and 15 step entries: layer labels 10..14 sort before "Layer 2" as strings
    for n in [11usize, 12, 15] {
        out.push(Edit::ManyLayers(n));
    }
    // nonce values
    if let Some(ann) = doc["annotations"].as_array() {
        if let Some((i, s)) = ann.iter().enumerate().find(|(_, a)| a.as_str().map(|s| s.contains("Proof of Work: POW: Data(")).unwrap_or(false)) {
            let s = s.as_str().unwrap();
            let open = s.rfind("Data(").unwrap() + 5;
            for v in ["0x0", "0xffffffffffffffff", "0x10000000000000000", "0x1ffffffffffffffff0", "0x"] {
                out.push(Edit::Set(format!("annotations[{}]", i), json!(format!("{}{})", &s[..open], v))));
            }
        }
    }
    out
}

pub fn first_difference(a: &Value, b: &Value) -> Option<String> {
    let (la, lb) = (jw::leaves(a), jw::leaves(b));
    for p in &la {
        if jw::get(b, p) != jw::get(a, p) {
            return Some(jw::path_str(p));
        }
    }
    for p in &lb {
        if jw::get(a, p).is_none() {
            return Some(jw::path_str(p));
        }
    }
    if a != b {
        return Some("(structure)".into());
    }
    None
}

/// (outcome class, violation (key, what)?)
fn judge(text: &str, class: &str) -> (String, Option<(String, String)>) {
    let loaded = stonefile::load_opts(text, false);
    let parsed = parse_and_transform(text);
    match (&loaded, &parsed) {
        (_, Parsed::Panic(p)) => ("parser-panics".into(), Some((format!("parser:panic:{}", p.site()), format!("parser / conversion panics at {}:{} ({})", p.file, p.line, p.msg.chars().take(80).collect::<String>())))),
        (_, Parsed::Err(_)) => (format!("loader-{}:parser-err", if loaded.is_ok() { "ok" } else { "err" }), None),
        (Err(why), Parsed::Ok(_)) if why.starts_with("unjudged") => ("unjudged:parser-ok".into(), None),
        (Err(why), Parsed::Ok(_)) => {
            let w: String = why.chars().map(|c| if c.is_ascii_digit() { '#' } else { c }).collect::<String>().split('\'').next().unwrap_or("").trim().to_string();
            ("loader-err:parser-OK".into(), Some((format!("parser:accepts-malformed:{}", w), format!("the file is malformed / does not fit ({}) but the parser returns a proof [{}]", why, class))))
        }
        (Ok(l), Parsed::Ok(q)) => {
            if !l.ambiguous.is_empty() {
                return ("ambiguous:unjudged".into(), None);
            }
            if l.proof == **q {
                ("equal".into(), None)
            } else {
                let d = first_difference(&proof_to_value(&l.proof), &proof_to_value(q)).unwrap_or_default();
                let dc = jw::path_class(&jw::parse_path(&d));
                ("DIFFERS".into(), Some((format!("parser:differs:{}", dc), format!("the parsed proof differs from the file's values at {} [{}]", d, class))))
            }
        }
    }
}

fn files(ctx: &Ctx) -> Vec<ProofFile> {
    let mut fs = stonefile::native_proofs(ctx);
    if ctx.quick() {
        // k160s5: the smallest recursive file; b248s6: the dynamic file; others: the recursive file
        let b = build_name();
        fs.retain(|p| match b {
            "b248s6" => p.loaded.meta.layout == "dynamic",
            _ => p.loaded.meta.layout == "recursive",
        });
        fs.truncate(1);
    }
    fs
}

pub fn run(ctx: &Ctx) -> Report {
    let mut rep = Report::new(
        "C19",
        "exploration",
        "0 deviations: every shipped proof file of this build parsed + converted equals the independent loader's proof (typed \
         equality). 1 deviation: every annotation line x {delete, last hex digit changed, hex digit -> 'g'; thorough adds duplicate, \
         swap with next, leading digit -> 'f' (>= p), truncated value list}, every proof_parameters number x {0,1,3,7,255,256,300, \
         2^32-1,2^32,-1,\"12\"}, step list emptied / shortened, layout names, every segment renamed / removed / bounds at u32 limits, \
         memory cells (address, page, value incl. bad hex and >= p), dynamic parameters removed / renamed / extra / out of range, \
         nonce at 0 / 2^64-1 / 2^64. Oracle: parser returns an error, or exactly the lenient loader's proof; never a proof for a file \
         the loader rejects; never a panic. Non-trivial: every edited file; distinct by (file, edit)",
    );
    rep.trust("serde_json document model for applying edits; the loader is cross-checked byte-for-byte against proof_hex on the unedited files");
    let quick = ctx.quick();
    for pf in files(ctx) {
        let doc: Value = serde_json::from_str(&pf.text).expect("shipped proof is JSON");
        // 0 deviations, on the original text
        match parse_and_transform(&pf.text) {
            Parsed::Ok(q) => {
                let same = *q == pf.loaded.proof;
                rep.eval(if same { "original:equal" } else { "original:DIFFERS" });
                rep.traces_validated += 1;
                if !same {
                    let d = first_difference(&proof_to_value(&pf.loaded.proof), &proof_to_value(&q)).unwrap_or_default();
                    rep.violation(&format!("parser:differs-on-shipped-file:{}", jw::path_class(&jw::parse_path(&d))), &format!("{}: parsed proof differs from the file at {}", pf.name, d), json!({"kind": "file", "file": pf.name, "edit": {"e": "none"}}));
                }
            }
            Parsed::Err(e) => {
                rep.eval("original:parser-err");
                rep.violation("parser:rejects-shipped-file", &format!("{}: {}", pf.name, e), json!({"kind": "file", "file": pf.name, "edit": {"e": "none"}}));
            }
            Parsed::Panic(p) => {
                rep.eval("original:parser-panics");
                rep.violation(&format!("parser:panic:{}", p.site()), &format!("{}: parser panics on a shipped file", pf.name), json!({"kind": "file", "file": pf.name, "edit": {"e": "none"}}));
            }
        }
        let mut edits = annotation_edits(&doc, quick);
        if quick && pf.loaded.meta.layout == "dynamic" {
            // the dynamic file is the largest (3.1k lines, 340 parameters): every 8th line in the quick tier
            edits.retain(|e| match e {
                Edit::AnnDelete(i) | Edit::AnnChar(i, _, _) | Edit::AnnValue(i, _) => i % 8 == 0,
                _ => true,
            });
            rep.cap("quick tier: annotation edits of the dynamic file restricted to every 8th line (all lines in thorough)");
        }
        edits.extend(structure_edits(&doc));
        let results: Vec<Option<(String, String, Option<(String, String)>)>> = edits
            .par_iter()
            .map(|e| {
                let d = e.apply(&doc)?;
                let class = e.class(&doc);
                let text = serde_json::to_string(&d).ok()?;
                let (oc, viol) = judge(&text, &class);
                Some((class, oc, viol))
            })
            .collect();
        for (e, r) in edits.iter().zip(results) {
            match r {
                None => rep.eval("skipped:not-applicable"),
                Some((class, oc, viol)) => {
                    rep.eval(&oc);
                    rep.nontrivial_case(&format!("{}|{:?}", pf.name, e));
                    rep.sample(&format!("{}:{}", oc, class.split(':').next().unwrap_or("")), json!({"file": pf.name, "edit": e.to_json(), "edit_class": class, "observed": oc}));
                    if let Some((key, what)) = viol {
                        rep.violation(&key, &format!("{}: {}", pf.name, what), json!({"kind": "file", "file": pf.name, "edit": e.to_json()}));
                    }
                }
            }
        }
        rep.extra.insert(format!("edits:{}", pf.name), json!(edits.len()));
    }
    rep.bound_completed = format!("1 edit per file; build {}", build_name());
    rep
}

pub fn replay(ctx: &Ctx, case: &Value) -> super::ReplayResult {
    let name = case["file"].as_str().ok_or("file")?;
    let pf = stonefile::corpus(ctx).into_iter().find(|p| p.name == name).ok_or("no such file")?;
    let e = Edit::from_json(&case["edit"]).ok_or("bad edit")?;
    let doc: Value = serde_json::from_str(&pf.text).map_err(|e| e.to_string())?;
    let d = e.apply(&doc).ok_or("edit does not apply")?;
    let (oc, viol) = judge(&serde_json::to_string(&d).unwrap(), &e.class(&doc));
    Ok((viol.is_some(), format!("{} {:?}", oc, viol.map(|v| v.0))))
}
