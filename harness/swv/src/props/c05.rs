//! C05 - table decommitment binds every cell of every queried row.
use crate::kit::{explore::subsets, fu, panics::{verdict, Verdict}, report::Report, Ctx};
use crate::refm::merkle::{Table, Variant};
use rayon::prelude::*;
use serde_json::{json, Value};
use starknet_crypto::Felt;
use swiftness_commitment::{
    table::{
        config::Config as TableConfig,
        decommit::table_decommit,
        types::{Commitment as TableCommitment, Decommitment, Witness as TableWitness},
    },
    vector::{config::Config as VecConfig, types::{Commitment as VecCommitment, Witness as VecWitness}},
};

pub fn table_commitment(root: Felt, n_columns: Felt, height: u64, n_friendly: u64) -> TableCommitment {
    let vc = VecConfig { height: fu(height), n_verifier_friendly_commitment_layers: fu(n_friendly) };
    TableCommitment {
        config: TableConfig { n_columns, vector: vc.clone() },
        vector_commitment: VecCommitment { config: vc, commitment_hash: root },
    }
}

pub fn decommit(root: Felt, n_columns: Felt, height: u64, n_friendly: u64, queries: &[Felt], values: &[Felt], wit: &[Felt]) -> Verdict {
    let c = table_commitment(root, n_columns, height, n_friendly);
    let d = Decommitment { values: values.to_vec() };
    let w = TableWitness { vector: VecWitness { authentications: wit.to_vec() } };
    verdict(|| table_decommit(c, queries, d, w))
}

pub fn rows_for(ctx: &Ctx, h: u32, cols: usize, special: bool) -> Vec<Vec<Felt>> {
    let n = 1usize << h;
    if special {
        let menu = [Felt::ZERO, Felt::ONE, crate::kit::p_minus(1), Felt::TWO];
        (0..n).map(|r| (0..cols).map(|c| {
            let k = r * cols + c;
            if k < menu.len() { menu[k] } else { fu(7000 + k as u64) }
        }).collect()).collect()
    } else {
        let mut rng = ctx.rng(0x0500 + (h as u64) * 64 + cols as u64);
        (0..n).map(|_| rng.felts(cols)).collect()
    }
}

#[derive(Clone, Debug)]
pub enum Corr {
    None,
    Cell(usize),
    SwapCells(usize, usize),
    ValuesShort,
    ValuesLong,
    ValuesEmpty,
    /// values resized to this length (zero padded / cut): whole extra row, missing row, doubled
    ValuesLen(usize),
    ColsPlus,
    ColsMinus,
    /// n_columns + 2^e: a column count that only agrees with the honest one modulo 2^32 / 2^64 / 2^128
    ColsHigh(u32),
    /// cell + 2^250: differs from the committed cell only above every digest width
    CellHigh(usize),
    Root,
    /// root + 2^250
    RootHigh,
    Sibling(usize),
    RowIndex(usize, u64),
}
impl Corr {
    fn to_json(&self) -> Value {
        match self {
            Corr::None => json!({"c": "none"}),
            Corr::Cell(i) => json!({"c": "cell", "i": i}),
            Corr::SwapCells(i, j) => json!({"c": "swap", "i": i, "j": j}),
            Corr::ValuesShort => json!({"c": "values_short"}),
            Corr::ValuesLong => json!({"c": "values_long"}),
            Corr::ValuesEmpty => json!({"c": "values_empty"}),
            Corr::ValuesLen(n) => json!({"c": "values_len", "n": n}),
            Corr::ColsPlus => json!({"c": "cols_plus"}),
            Corr::ColsMinus => json!({"c": "cols_minus"}),
            Corr::ColsHigh(e) => json!({"c": "cols_high", "e": e}),
            Corr::CellHigh(i) => json!({"c": "cell_high", "i": i}),
            Corr::RootHigh => json!({"c": "root_high"}),
            Corr::Root => json!({"c": "root"}),
            Corr::Sibling(k) => json!({"c": "sibling", "k": k}),
            Corr::RowIndex(i, j) => json!({"c": "row_index", "i": i, "to": j}),
        }
    }
    fn from_json(v: &Value) -> Option<Corr> {
        let g = |k: &str| v.get(k).and_then(|x| x.as_u64());
        Some(match v.get("c")?.as_str()? {
            "none" => Corr::None,
            "cell" => Corr::Cell(g("i")? as usize),
            "swap" => Corr::SwapCells(g("i")? as usize, g("j")? as usize),
            "values_short" => Corr::ValuesShort,
            "values_long" => Corr::ValuesLong,
            "values_empty" => Corr::ValuesEmpty,
            "values_len" => Corr::ValuesLen(g("n")? as usize),
            "cols_plus" => Corr::ColsPlus,
            "cols_minus" => Corr::ColsMinus,
            "cols_high" => Corr::ColsHigh(g("e")? as u32),
            "cell_high" => Corr::CellHigh(g("i")? as usize),
            "root_high" => Corr::RootHigh,
            "root" => Corr::Root,
            "sibling" => Corr::Sibling(g("k")? as usize),
            "row_index" => Corr::RowIndex(g("i")? as usize, g("to")?),
            _ => return None,
        })
    }
    fn kind(&self) -> &'static str {
        match self {
            Corr::None => "honest",
            Corr::Cell(_) => "cell",
            Corr::SwapCells(..) => "swap_cells",
            Corr::ValuesShort => "values_short",
            Corr::ValuesLong => "values_long",
            Corr::ValuesEmpty => "values_empty",
            Corr::ValuesLen(_) => "values_len",
            Corr::ColsPlus => "cols_plus",
            Corr::ColsMinus => "cols_minus",
            Corr::ColsHigh(_) => "cols_high",
            Corr::CellHigh(_) => "cell_high",
            Corr::RootHigh => "root_high",
            Corr::Root => "root",
            Corr::Sibling(_) => "sibling",
            Corr::RowIndex(..) => "row_index",
        }
    }
}

pub struct Shape<'a> {
    pub h: u32,
    pub f: u64,
    pub cols: usize,
    pub special: bool,
    pub qs: &'a [usize],
}

pub fn exec(ctx: &Ctx, own: Variant, sh: &Shape, table: Option<&Table>, corr: &Corr) -> (bool, Verdict) {
    let built;
    let t = match table {
        Some(t) => t,
        None => {
            built = Table::build(own, rows_for(ctx, sh.h, sh.cols, sh.special), sh.f);
            &built
        }
    };
    let mut root = t.root();
    let (mut values, mut wit) = t.open(sh.qs);
    let mut queries: Vec<Felt> = sh.qs.iter().map(|&q| fu(q as u64)).collect();
    let mut n_columns = fu(sh.cols as u64);
    let mut expect = false;
    match corr {
        Corr::None => expect = true,
        Corr::Cell(i) => values[*i] += Felt::ONE,
        Corr::SwapCells(i, j) => values.swap(*i, *j),
        Corr::ValuesShort => {
            values.pop();
        }
        Corr::ValuesLong => values.push(Felt::from(5u64)),
        Corr::ValuesEmpty => values.clear(),
        Corr::ValuesLen(n) => values.resize(*n, Felt::from(5u64)),
        Corr::ColsPlus => n_columns += Felt::ONE,
        Corr::ColsMinus => n_columns -= Felt::ONE,
        Corr::ColsHigh(e) => n_columns += Felt::TWO.pow(*e as u128),
        Corr::CellHigh(i) => values[*i] += Felt::TWO.pow(250u128),
        Corr::RootHigh => root += Felt::TWO.pow(250u128),
        Corr::Root => root += Felt::ONE,
        Corr::Sibling(k) => wit[*k] += Felt::ONE,
        Corr::RowIndex(i, j) => queries[*i] = fu(*j),
    }
    (expect, decommit(root, n_columns, sh.h as u64, sh.f, &queries, &values, &wit))
}

fn corruptions(sh: &Shape, n_wit: usize) -> Vec<Corr> {
    let n_vals = sh.cols * sh.qs.len();
    let mut out = vec![Corr::None, Corr::Root, Corr::RootHigh, Corr::ValuesShort, Corr::ValuesLong, Corr::ColsPlus, Corr::ColsMinus,
        Corr::ColsHigh(32), Corr::ColsHigh(64), Corr::ColsHigh(128)];
    if n_vals > 0 {
        out.push(Corr::ValuesEmpty);
    }
    for n in [n_vals + sh.cols, n_vals.saturating_sub(sh.cols), 2 * n_vals, n_vals + sh.cols - 1, n_vals + 2, n_vals + 256, n_vals + 65536] {
        if n != n_vals && n != n_vals + 1 && n + 1 != n_vals && n != 0 {
            out.push(Corr::ValuesLen(n));
        }
    }
    for i in 0..n_vals {
        out.push(Corr::Cell(i));
        out.push(Corr::CellHigh(i));
    }
    // every transposition of two cells (within a row and across queried rows); all cells
    // are pairwise distinct so each transposition changes the opened data
    if n_vals <= 16 {
        for i in 0..n_vals {
            for j in i + 1..n_vals {
                out.push(Corr::SwapCells(i, j));
            }
        }
    } else {
        for i in 0..n_vals - 1 {
            out.push(Corr::SwapCells(i, i + 1));
            if i + sh.cols < n_vals {
                out.push(Corr::SwapCells(i, i + sh.cols));
            }
        }
    }
    for k in 0..n_wit {
        out.push(Corr::Sibling(k));
    }
    let n = 1u64 << sh.h;
    for (i, &q) in sh.qs.iter().enumerate() {
        for j in 0..n.min(8) {
            if j != q as u64 && !sh.qs.contains(&(j as usize)) {
                out.push(Corr::RowIndex(i, j));
            }
        }
    }
    out
}

fn case_json(own: Variant, sh: &Shape, corr: &Corr, v: &Verdict) -> Value {
    json!({"kind": "table", "variant": own.name(), "h": sh.h, "f": sh.f, "cols": sh.cols, "special": sh.special,
           "queries": sh.qs, "corruption": corr.to_json(), "observed": v.class()})
}

/// Tables that cannot be materialised: heights up to 64 and hundreds of opened rows (sparse reference tree).
fn tall_tables(ctx: &Ctx, own: Variant, rep: &mut Report) {
    use crate::refm::merkle::{row_leaf, SparseTree};
    let shapes = crate::props::c04::tall_shapes(ctx);
    let parts: Vec<Report> = shapes
        .par_iter()
        .map(|(h, tag, qs)| {
            let mut r = Report::new("C05", "exploration", "");
            let mut rng = ctx.rng(0x05b0 + *h as u64);
            for cols in [1usize, 2, 5] {
                for f in [0u64, *h as u64 + 1] {
                    let rows: std::collections::BTreeMap<u128, Vec<Felt>> = qs.iter().map(|q| (*q, rng.felts(cols))).collect();
                    let leaves: std::collections::BTreeMap<u128, Felt> = rows.iter().map(|(i, row)| (*i, row_leaf(own, row, *h, f))).collect();
                    let t = SparseTree::open(own, *h, f, Felt::ZERO, &leaves);
                    let queries: Vec<Felt> = rows.keys().map(|i| crate::kit::b2f(&num_bigint::BigUint::from(*i))).collect();
                    let values: Vec<Felt> = rows.values().flat_map(|r| r.iter().cloned()).collect();
                    let case = |c: &str| json!({"kind": "tall", "h": h, "f": f, "cols": cols, "shape": tag, "corruption": c});
                    let v = decommit(t.root, fu(cols as u64), *h as u64, f, &queries, &values, &t.auths);
                    r.eval(&format!("tall:honest:{}", v.short()));
                    r.nontrivial_case(&format!("tall|{}|{}|{}|{}|honest", h, f, cols, tag));
                    if !v.accepted() {
                        r.violation(&format!("table_decommit:honest:rejected:tall:{}", tag), &format!("honest opening of {} rows ({}) x {} columns in a table of height {} (f={}) rejected: {}", qs.len(), tag, cols, h, f, v.class()), case("none"));
                        continue;
                    }
                    for (c, which) in [("first-cell", 0usize), ("last-cell", values.len() - 1)] {
                        let mut v2 = values.clone();
                        v2[which] += Felt::ONE;
                        let v = decommit(t.root, fu(cols as u64), *h as u64, f, &queries, &v2, &t.auths);
                        r.eval(&format!("tall:cell:{}", v.short()));
                        r.nontrivial_case(&format!("tall|{}|{}|{}|{}|{}", h, f, cols, tag, c));
                        if v.accepted() {
                            r.violation(&format!("table_decommit:cell:accepted:tall:{}", tag), &format!("{} changed, {} rows ({}) x {} columns, height {} f={}: accepted", c, qs.len(), tag, cols, h, f), case(c));
                        }
                    }
                }
            }
            r
        })
        .collect();
    for p in parts {
        rep.merge(p);
    }
}

pub fn run(ctx: &Ctx) -> Report {
    let own = Variant::of_build();
    let mut rep = Report::new(
        "C05",
        "exploration",
        "every (columns, height h, friendly count f in 0..=h+2, sorted query subset) within the tier bound with the \
         honest opening and every single corruption (each cell +1, cell transpositions within and across rows, values \
         one short / one long / empty, declared columns +-1, root, sibling, row index); non-trivial when the honest \
         opening of that shape was accepted; distinct by (variant,cols,h,f,subset,corruption)",
    );
    rep.trust("Poseidon (starknet-crypto), Keccak-256 (sha3), Blake2s-256 (blake2) as primitives");
    rep.assume("collision resistance of row and node hashes on the explored cells");
    let cols_menu: Vec<usize> = if ctx.quick() { vec![1, 2, 3, 8] } else { vec![1, 2, 3, 4, 8, 16] };
    let hs: Vec<(u32, usize)> = if ctx.quick() { vec![(0, 1), (1, 2), (2, 4), (3, 2)] } else { vec![(0, 1), (1, 2), (2, 4), (3, 8), (4, 3)] };
    let mut bound = Vec::new();
    for &(h, maxsz) in &hs {
        let subs = subsets(1 << h, maxsz);
        bound.push(format!("h={}: {} subsets (size<={})", h, subs.len(), maxsz));
        // wide rows (beyond any fixed-size buffer a hasher might use): heights 0 and 1 only
        let wide: Vec<usize> = if h > 1 { vec![] } else if ctx.quick() { vec![33, 128] } else { vec![17, 32, 33, 64, 127, 128, 129] };
        for &cols in cols_menu.iter().chain(wide.iter()) {
            for special in [false, true] {
                if special && (h > 1 || cols > 3) {
                    continue;
                }
                let rows = rows_for(ctx, h, cols, special);
                for f in 0..=(h as u64 + 2) {
                    let table = Table::build(own, rows.clone(), f);
                    let part: Vec<Report> = subs
                        .par_chunks(8)
                        .map(|chunk| {
                            let mut r = Report::new("C05", "exploration", "");
                            for qs in chunk {
                                let sh = Shape { h, f, cols, special, qs };
                                let n_wit = table.tree.witness(qs).0.len();
                                let mut honest_ok = false;
                                for corr in corruptions(&sh, n_wit) {
                                    let (expect, v) = exec(ctx, own, &sh, Some(&table), &corr);
                                    let class = format!("{}:{}", corr.kind(), v.short());
                                    r.eval(&class);
                                    if matches!(corr, Corr::None) {
                                        honest_ok = v.accepted();
                                    }
                                    if honest_ok {
                                        r.nontrivial_case(&format!("{}|{}|{}|{}|{}|{:?}|{:?}", own.name(), cols, h, f, special, qs, corr));
                                    }
                                    r.sample(&class, case_json(own, &sh, &corr, &v));
                                    let row_level = if f >= h as u64 + 1 { "row-friendly" } else { "row-masked" };
                                    if v.accepted() != expect {
                                        let key = format!("table_decommit:{}:{}:cols{}:{}", corr.kind(),
                                            if expect { "rejected" } else { "accepted" }, if cols == 1 { "=1" } else { ">1" }, row_level);
                                        r.violation(&key, &format!("{} {} (variant {}, cols={}, h={}, f={}, queries={:?}, {:?})",
                                            corr.kind(), if expect { "rejected" } else { "accepted" }, own.name(), cols, h, f, qs, corr),
                                            case_json(own, &sh, &corr, &v));
                                    }
                                    // a length mismatch must be an error value, not a panic
                                    if matches!(corr, Corr::ValuesShort | Corr::ValuesLong | Corr::ValuesEmpty | Corr::ValuesLen(_)) {
                                        if let Verdict::Panic(p) = &v {
                                            r.violation(&format!("table_decommit:length-panic:{}", p.site()),
                                                &format!("cells != columns x queries panics instead of returning an error: {}", p.site()),
                                                case_json(own, &sh, &corr, &v));
                                        }
                                    }
                                }
                            }
                            r
                        })
                        .collect();
                    for p in part {
                        rep.merge(p);
                    }
                }
            }
        }
    }
    tall_tables(ctx, own, &mut rep);
    rep.bound_completed = format!("sparse tables of height up to 64 with up to 2047 opened rows; columns {:?} (+ wide rows of 33 / 128 columns at heights 0, 1; thorough: 17..129); {}", cols_menu, bound.join("; "));
    rep.extra.insert("variant".into(), json!(own.name()));
    rep
}

pub fn replay(ctx: &Ctx, case: &Value) -> super::ReplayResult {
    if case["kind"] == "tall" {
        let mut rep = Report::new("C05", "exploration", "");
        tall_tables(ctx, Variant::of_build(), &mut rep);
        let want = format!("tall:{}", case["shape"].as_str().unwrap_or(""));
        let hit: Vec<&String> = rep.violations.keys().filter(|k| k.ends_with(&want)).collect();
        return Ok((!hit.is_empty(), format!("{:?}", hit)));
    }
    let own = Variant::of_build();
    let h = case["h"].as_u64().ok_or("h")? as u32;
    let f = case["f"].as_u64().ok_or("f")?;
    let cols = case["cols"].as_u64().ok_or("cols")? as usize;
    let special = case["special"].as_bool().unwrap_or(false);
    let qs: Vec<usize> = case["queries"].as_array().ok_or("queries")?.iter().map(|x| x.as_u64().unwrap() as usize).collect();
    let corr = Corr::from_json(&case["corruption"]).ok_or("corruption")?;
    let sh = Shape { h, f, cols, special, qs: &qs };
    let (expect, v) = exec(ctx, own, &sh, None, &corr);
    let bad = v.accepted() != expect
        || (matches!(corr, Corr::ValuesShort | Corr::ValuesLong | Corr::ValuesEmpty | Corr::ValuesLen(_)) && matches!(v, Verdict::Panic(_)));
    Ok((bad, format!("expected_accept={} observed={}", expect, v.class())))
}
