//! C03 - honest Stone proofs verify only under the matching build, with right hashes.
//! Finite space: (25 shipped proofs + fixture) x this build x 7 layouts, enumerated completely.
use crate::kit::{build_hash, build_name, build_stone6, fhex, report::Report, Ctx, HashKind};
use crate::props::common::{fixture_proof, own_security, verify_full};
use crate::refm::{pubin::{expected_hashes, Hashes}, stonefile::{self, LAYOUTS}};
use rayon::prelude::*;
use serde_json::{json, Value};
use swiftness_stark::types::StarkProof;

struct Item {
    name: String,
    proof: StarkProof,
    layout: String,
    stone6: bool,
    commit_hash: HashKind,
    mask_bits: u32,
    pow_hash: HashKind,
    has_masked: bool,
}

fn items(ctx: &Ctx) -> Vec<Item> {
    let mut v: Vec<Item> = stonefile::corpus(ctx)
        .into_iter()
        .map(|pf| Item {
            name: pf.name.clone(),
            layout: pf.loaded.meta.layout.clone(),
            stone6: pf.stone6,
            commit_hash: pf.loaded.meta.commit_hash,
            mask_bits: pf.loaded.meta.mask_bits,
            pow_hash: pf.loaded.meta.pow_hash,
            has_masked: pf.loaded.meta.has_masked_layer(),
            proof: pf.loaded.proof,
        })
        .collect();
    // the in-tree fixture: recursive, keccak_160_lsb, stone5, 100 friendly layers (no masked layer)
    v.push(Item { name: "fixture/recursive".into(), proof: fixture_proof(), layout: "recursive".into(), stone6: false, commit_hash: HashKind::Keccak, mask_bits: 160, pow_hash: HashKind::Keccak, has_masked: false });
    v
}

fn expected_accept(it: &Item, layout: &str) -> bool {
    let (bk, bbits) = build_hash();
    layout == it.layout && it.stone6 == build_stone6() && it.pow_hash == bk && ((it.commit_hash == bk && it.mask_bits == bbits) || !it.has_masked)
}

fn one(it: &Item, layout: &str) -> (bool, crate::kit::panics::Verdict, Vec<String>) {
    let expect = expected_accept(it, layout);
    let (v, pair) = verify_full(&it.proof, layout, own_security(&it.proof));
    let mut bad = Vec::new();
    if v.accepted() != expect {
        bad.push(if expect { format!("matching build rejects ({})", v.class()) } else { "non-matching build accepts".to_string() });
    }
    if let Some((ph, oh)) = pair {
        match expected_hashes(&it.proof.public_input) {
            Hashes::Pairs(ps) => {
                if ps.len() != 1 {
                    bad.push("honest main page is ambiguous by address".to_string());
                } else {
                    let (ep, eo) = ps[0];
                    if ep != ph {
                        bad.push(format!("program hash {} differs from the by-address Pedersen chain {}", fhex(&ph), fhex(&ep)));
                    }
                    if eo != oh {
                        bad.push(format!("output hash {} differs from the by-address Pedersen chain {}", fhex(&oh), fhex(&eo)));
                    }
                }
            }
            Hashes::Malformed(why) => bad.push(format!("accepted although the main page is malformed: {}", why)),
        }
        // serialise / deserialise round trip
        // serialise -> text -> deserialise, without assuming that it succeeds
        let rt: Result<StarkProof, String> = serde_json::to_string(&it.proof).map_err(|e| e.to_string()).and_then(|t| serde_json::from_str::<StarkProof>(&t).map_err(|e| e.to_string()));
        match rt {
            Err(e) => bad.push(format!("serde round trip fails: the serialised proof does not load again ({})", e.chars().take(80).collect::<String>())),
            Ok(rt) => {
                if rt != it.proof {
                    bad.push("serde round trip changes the proof value".to_string());
                }
                let (v2, pair2) = verify_full(&rt, layout, own_security(&rt));
                if v2 != v || pair2 != pair {
                    bad.push("verdict changes after a serde round trip".to_string());
                }
            }
        }
    }
    (expect, v, bad)
}

/// Completeness at the capacity boundary: the public memory column of an honest trace holds trace_length /
/// PUBLIC_MEMORY_STEP cells (a power of two) and an honest execution may fill it exactly.  For each static layout
/// the largest main page for which the composition evaluator does not refuse the public input must be a power
/// of two (found by bisection on the real evaluator; "one cell less than a power of two" is an off-by-one).
fn public_memory_capacity(ctx: &Ctx, rep: &mut Report) {
    use crate::props::c16::{comp, setting};
    use swiftness_air::layout::LayoutTrait;
    let corpus = crate::refm::stonefile::corpus(ctx);
    for layout in LAYOUTS.iter().filter(|l| **l != "dynamic") {
        let pf = match corpus.iter().find(|p| p.loaded.meta.layout == *layout) {
            Some(p) => p,
            None => continue,
        };
        let base = serde_json::to_value(&pf.loaded.proof.public_input).unwrap();
        // a trace of 2^16 rows (2^20 for the layout whose builtins need more); pages stay small
        let lt = if *layout == "starknet_with_keccak" { 20u32 } else { 16u32 };
        let accepts = |n: usize| -> Option<bool> {
            let mut v = base.clone();
            v["log_n_steps"] = json!(format!("{:#x}", lt - 4));
            v["main_page"] = serde_json::Value::Array((0..n).map(|i| json!({"address": format!("{:#x}", i + 1), "value": format!("{:#x}", 7 * i + 3)})).collect());
            let pi: swiftness_air::public_memory::PublicInput = serde_json::from_value(v).ok()?;
            let r = crate::with_layout!(*layout, L, {
                let mut s = setting::<L>(pf, &mut ctx.rng(0x0310));
                s.trace_size = crate::kit::b2f(&crate::kit::pow2(lt));
                s.trace_gen = crate::kit::b2f(&crate::refm::zint::root_of_unity(lt));
                comp::<L>(&s, &pi, &vec![starknet_crypto::Felt::ONE; L::N_CONSTRAINTS])
            });
            Some(match r {
                Ok(_) => true,
                Err(e) => !e.contains("ValueOutOfRange"),
            })
        };
        // capacity <= trace length: bisect on [0, 2^lt]
        let (mut lo, mut hi) = (0usize, (1usize << (lt - 2)) + 1); // accepts(lo) expected true, accepts(hi) expected false
        if accepts(lo) != Some(true) || accepts(hi) != Some(false) {
            rep.cap(&format!("{}: public-memory capacity not bracketed (evaluator refuses an empty page or accepts 2^{}+1 cells)", layout, lt - 2));
            continue;
        }
        while hi - lo > 1 {
            let mid = lo + (hi - lo) / 2;
            match accepts(mid) {
                Some(true) => lo = mid,
                _ => hi = mid,
            }
        }
        let ok = lo.is_power_of_two();
        rep.eval(if ok { "capacity:power-of-two" } else { "capacity:NOT-a-power-of-two" });
        rep.nontrivial_case(&format!("capacity|{}", layout));
        rep.sample(&format!("capacity-{}", layout), json!({"layout": layout, "log_trace": lt, "largest_accepted_main_page": lo}));
        if !ok {
            rep.violation(&format!("verify:matching-build-rejects:full-public-memory:{}", layout),
                &format!("layout {} at trace 2^{}: the largest main page the composition evaluator accepts has {} cells - not a power of two, so an honest execution that fills its public memory column exactly is refused", layout, lt, lo),
                json!({"kind": "capacity", "layout": layout}));
        }
    }
}

pub fn run(ctx: &Ctx) -> Report {
    let mut rep = Report::new(
        "C03",
        "exploration",
        "every honest proof (25 shipped Stone proofs loaded by the independent loader + the in-tree fixture) x this build x \
         all 7 layouts, enumerated completely; oracle: accept <=> layout, Stone version, PoW hash family match and (commitment \
         hash variant matches or the proof has no masked-hash layer); returned pair = by-address Pedersen chains; verdict \
         stable under a serde round trip. Non-trivial: every (proof, build, layout) triple; distinct by triple",
    );
    rep.trust("Pedersen/Poseidon/Keccak/Blake2s primitives; the 26 honest instances are the only honest proofs available offline");
    let its = items(ctx);
    let jobs: Vec<(usize, &str)> = (0..its.len()).flat_map(|i| LAYOUTS.iter().map(move |l| (i, *l))).collect();
    let res: Vec<((usize, &str), (bool, crate::kit::panics::Verdict, Vec<String>))> = jobs.par_iter().map(|&(i, l)| ((i, l), one(&its[i], l))).collect();
    let mut accepted = 0;
    for ((i, l), (expect, v, bad)) in res {
        let it = &its[i];
        let class = format!("{}:{}", if expect { "matching" } else { "non-matching" }, v.short());
        rep.eval(&class);
        rep.nontrivial_case(&format!("{}|{}|{}", it.name, build_name(), l));
        if v.accepted() {
            accepted += 1;
        }
        rep.sample(&class, json!({"proof": it.name, "build": build_name(), "layout": l, "expected_accept": expect, "observed": v.class()}));
        for b in bad {
            let key = format!("verify:{}:{}", if b.contains("hash") { "returned-hashes" } else if b.contains("round trip") { "round-trip" } else if expect { "matching-build-rejects" } else { "non-matching-build-accepts" },
                if l == it.layout { "own-layout" } else { "other-layout" });
            rep.violation(&key, &format!("{} under build {} layout {}: {}", it.name, build_name(), l, b), json!({"kind": "pair", "proof": it.name, "layout": l}));
        }
    }
    public_memory_capacity(ctx, &mut rep);
    rep.extra.insert("accepted_pairs".into(), json!(accepted));
    rep.bound_completed = format!("complete: {} proofs x 7 layouts on build {}", its.len(), build_name());
    rep
}

pub fn replay(ctx: &Ctx, case: &Value) -> super::ReplayResult {
    if case["kind"] == "capacity" {
        let mut rep = Report::new("C03", "exploration", "");
        public_memory_capacity(ctx, &mut rep);
        return Ok((!rep.violations.is_empty(), format!("{:?}", rep.violations.keys().collect::<Vec<_>>())));
    }
    let name = case["proof"].as_str().ok_or("proof")?;
    let layout = case["layout"].as_str().ok_or("layout")?;
    let its = items(ctx);
    let it = its.iter().find(|i| i.name == name).ok_or("no such proof")?;
    let l = LAYOUTS.iter().find(|x| **x == layout).ok_or("no such layout")?;
    let (expect, v, bad) = one(it, l);
    Ok((!bad.is_empty(), format!("expected_accept={} observed={} {:?}", expect, v.class(), bad)))
}
