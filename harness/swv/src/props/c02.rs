//! C02 - accepted proofs are tamper-evident at every position.
//! Exhaustive single-deviation sweep over every leaf / vector element of the serde tree
//! of each honest proof, on the real `StarkProof::verify`.
use crate::kit::{build_name, fhex, jsonwalk as jw, p_minus, report::Report, Ctx};
use crate::props::common::{fixture_proof, proof_from_value, proof_to_value, verify};
use crate::refm::stonefile;
use rayon::prelude::*;
use serde_json::{json, Value};
use starknet_crypto::Felt;

#[derive(Clone, Debug)]
pub enum Mutn {
    Plus1,
    Zero,
    Flip(u32),
    HighBit(u32),
    NextValue,
    PMinus1,
    Delete,
}
impl Mutn {
    pub fn name(&self) -> String {
        match self {
            Mutn::Plus1 => "plus1".into(),
            Mutn::Zero => "zero".into(),
            Mutn::Flip(k) => format!("flip{}", k),
            Mutn::HighBit(k) => format!("highbit{}", k),
            Mutn::NextValue => "next-value".into(),
            Mutn::PMinus1 => "p-1".into(),
            Mutn::Delete => "delete".into(),
        }
    }
    pub fn kind(&self) -> &'static str {
        match self {
            Mutn::Plus1 => "plus1",
            Mutn::Zero => "zero",
            Mutn::Flip(_) => "flip",
            Mutn::HighBit(_) => "highbit",
            Mutn::NextValue => "next-value",
            Mutn::PMinus1 => "p-1",
            Mutn::Delete => "delete",
        }
    }
    pub fn parse(s: &str) -> Option<Mutn> {
        Some(match s {
            "plus1" => Mutn::Plus1,
            "zero" => Mutn::Zero,
            "next-value" => Mutn::NextValue,
            "p-1" => Mutn::PMinus1,
            "delete" => Mutn::Delete,
            f if f.starts_with("flip") => Mutn::Flip(f[4..].parse().ok()?),
            f if f.starts_with("highbit") => Mutn::HighBit(f[7..].parse().ok()?),
            _ => return None,
        })
    }
}

/// Apply a mutation at `path`; None if it does not apply or would not change the value.
pub fn apply(base: &Value, path: &jw::Path, m: &Mutn) -> Option<Value> {
    let mut v = base.clone();
    if let Mutn::Delete = m {
        let (last, parent) = path.split_last()?;
        let idx = match last {
            jw::Seg::Idx(i) => *i,
            _ => return None,
        };
        let arr = jw::get_mut(&mut v, &parent.to_vec())?.as_array_mut()?;
        if idx >= arr.len() {
            return None;
        }
        arr.remove(idx);
        return Some(v);
    }
    let cur = jw::get(base, path)?.clone();
    let new = match &cur {
        Value::String(s) => {
            let f = Felt::from_hex(s).ok()?;
            let n = match m {
                Mutn::Plus1 => f + Felt::ONE,
                Mutn::Zero => {
                    if f == Felt::ZERO {
                        Felt::ONE
                    } else {
                        Felt::ZERO
                    }
                }
                Mutn::Flip(k) => {
                    let mut b = f.to_bytes_be();
                    let k = (*k % 250) as usize;
                    b[31 - k / 8] ^= 1 << (k % 8);
                    Felt::from_bytes_be(&b)
                }
                Mutn::PMinus1 => p_minus(1),
                Mutn::HighBit(k) => {
                    let n = crate::kit::f2b(&f) + crate::kit::pow2(*k);
                    if n >= crate::kit::prime() {
                        return None;
                    }
                    crate::kit::b2f(&n)
                }
                Mutn::NextValue => {
                    let (last, parent) = path.split_last()?;
                    let i = match last {
                        jw::Seg::Idx(i) => *i,
                        _ => return None,
                    };
                    let mut np = parent.to_vec();
                    np.push(jw::Seg::Idx(i + 1));
                    Felt::from_hex(jw::get(base, &np)?.as_str()?).ok()?
                }
                Mutn::Delete => unreachable!(),
            };
            if n == f {
                return None;
            }
            Value::String(fhex(&n))
        }
        Value::Number(x) => {
            let u = x.as_u64()?;
            // n_bits is a u8; everything else numeric is u64 / usize
            let is_u8 = matches!(path.last(), Some(jw::Seg::Key(k)) if k == "n_bits");
            let max = if is_u8 { 255u64 } else { u64::MAX };
            let n = match m {
                Mutn::Plus1 => {
                    if u == max {
                        0
                    } else {
                        u + 1
                    }
                }
                Mutn::Zero => {
                    if u == 0 {
                        1
                    } else {
                        0
                    }
                }
                Mutn::Flip(k) => u ^ (1u64 << (k % if is_u8 { 8 } else { 64 })),
                Mutn::PMinus1 => max,
                Mutn::HighBit(k) => {
                    // numbers: add a power of two above the low 32 bits (160 -> 2^32, 248 -> 2^48, 250 -> 2^62)
                    if is_u8 {
                        return None;
                    }
                    let bit = match k {
                        160 | 32 => 32,
                        248 | 48 => 48,
                        _ => 62,
                    };
                    u.checked_add(1u64 << bit)?
                }
                Mutn::NextValue => return None,
                Mutn::Delete => unreachable!(),
            };
            if n == u {
                return None;
            }
            json!(n)
        }
        _ => return None,
    };
    jw::set(&mut v, path, new);
    Some(v)
}

/// All deletable vector elements: (path of the element)
pub fn vector_elements(v: &Value) -> Vec<jw::Path> {
    let mut out = Vec::new();
    for a in jw::arrays(v) {
        let n = jw::get(v, &a).unwrap().as_array().unwrap().len();
        for i in 0..n {
            let mut p = a.clone();
            p.push(jw::Seg::Idx(i));
            out.push(p);
        }
    }
    out
}

pub struct Base {
    pub name: String,
    pub layout: String,
    pub value: Value,
}

pub fn bases(ctx: &Ctx, all: bool) -> Vec<Base> {
    let mut out = Vec::new();
    let files = stonefile::native_proofs(ctx);
    for pf in files {
        // quick: the recursive proof of this build (stone6 b248: the one with masked layers)
        let pick = all || (pf.loaded.meta.layout == "recursive" && (!pf.stone6 || pf.name.ends_with("cairo0_stone6_example_proof") || build_name() == "k160s6"));
        if pick {
            out.push(Base { name: pf.name.clone(), layout: pf.loaded.meta.layout.clone(), value: proof_to_value(&pf.loaded.proof) });
        }
    }
    if build_name() == "k160s5" {
        out.push(Base { name: "fixture/recursive".into(), layout: "recursive".into(), value: proof_to_value(&fixture_proof()) });
    }
    out
}

pub fn cases(base: &Value, menu: &[Mutn], seed_bit: u32) -> Vec<(jw::Path, Mutn)> {
    let mut out = Vec::new();
    for leaf in jw::leaves(base) {
        for m in menu {
            let m = match m {
                Mutn::Flip(_) => Mutn::Flip(seed_bit),
                o => o.clone(),
            };
            if !matches!(m, Mutn::Delete) {
                out.push((leaf.clone(), m));
            }
        }
    }
    if menu.iter().any(|m| matches!(m, Mutn::Delete)) {
        for e in vector_elements(base) {
            out.push((e, Mutn::Delete));
        }
    }
    out
}

pub fn run(ctx: &Ctx) -> Report {
    let mut rep = Report::new(
        "C02",
        "exploration",
        "every leaf of the serde tree of each honest proof (configuration numbers, public-input fields incl. every main-page cell \
         and dynamic parameter, commitments, out-of-domain values, FRI commitments / coefficients, nonce, decommitted cells, \
         authentication nodes, FRI witness leaves) x mutation menu {+1, 0/1, one bit flip, value of the next vector element, p-1; \
         wrapped analogues for u8/u64} and deletion of every single element of every vector: exactly one deviation (quick: full sweep on the recursive proofs, one representative per position class on the \
         other layouts' proofs), the mutant must not be accepted at the honest proof's own security level. Non-trivial: mutant differs from the original as a typed \
         value; distinct by (proof, position, mutation)",
    );
    rep.trust("serde_json round trip of StarkProof (checked: every base re-typed from JSON is accepted)");
    rep.assume("collision resistance of the commitment hashes; a changed nonce still satisfying the PoW would change the queries");
    let quick = ctx.quick();
    // HighBit(k): v + 2^k for k in {160, 248, 250} - values that differ only above a masked digest's width
    let menu: Vec<Mutn> = if quick {
        vec![Mutn::Plus1, Mutn::HighBit(248), Mutn::Delete]
    } else {
        vec![Mutn::Plus1, Mutn::Zero, Mutn::Flip(0), Mutn::HighBit(160), Mutn::HighBit(248), Mutn::HighBit(250), Mutn::NextValue, Mutn::PMinus1, Mutn::Delete]
    };
    let bs = bases(ctx, !quick);
    let mut names = Vec::new();
    for b in &bs {
        // 0 deviations: accepted
        let honest = proof_from_value(&b.value).map(|p| verify(&p, &b.layout));
        match honest {
            Some(v) if v.accepted() => rep.eval("honest:ok"),
            other => {
                rep.eval("honest:not-accepted");
                rep.machinery(&format!("C02: base proof {} is not accepted on its native build: {:?}", b.name, other.map(|v| v.class())));
                continue;
            }
        }
        let cs = cases(&b.value, &menu, (ctx.seed % 200) as u32 + 3);
        names.push(json!({"proof": b.name, "positions": jw::leaves(&b.value).len(), "vector_elements": vector_elements(&b.value).len(), "cases": cs.len()}));
        let results: Vec<(usize, Option<crate::kit::panics::Verdict>)> = cs
            .par_iter()
            .enumerate()
            .map(|(i, (path, m))| {
                let v = apply(&b.value, path, m).and_then(|mv| if mv == b.value { None } else { proof_from_value(&mv) }).map(|p| verify(&p, &b.layout));
                (i, v)
            })
            .collect();
        for (i, v) in results {
            let (path, m) = &cs[i];
            match v {
                None => rep.eval("skipped:not-applicable"),
                Some(v) => {
                    let class = format!("{}:{}", m.kind(), v.short());
                    rep.eval(&class);
                    rep.nontrivial_case(&format!("{}|{}|{}", b.name, jw::path_str(path), m.name()));
                    rep.sample(&format!("{}:{}", class, jw::path_class(path).len() % 7), json!({"proof": b.name, "position": jw::path_str(path), "mutation": m.name(), "observed": v.class()}));
                    if v.accepted() {
                        rep.violation(&format!("tamper-accepted:{}:{}", jw::path_class(path), m.kind()),
                            &format!("{}: {} at {} is still accepted", b.name, m.name(), jw::path_str(path)),
                            json!({"kind": "tamper", "proof": b.name, "path": jw::path_str(path), "mutation": m.name()}));
                    }
                }
            }
        }
    }
    // quick tier: the other layouts of this build get one representative per POSITION CLASS (first and
    // last position of every class: +1, and deletion of the first / last element of every vector), so
    // that per-layout code (traces_decommit, public-input checks: seven copies) is exercised too
    if quick {
        let done: Vec<String> = bs.iter().map(|b| b.name.clone()).collect();
        let others: Vec<Base> = bases(ctx, true).into_iter().filter(|b| !done.contains(&b.name)).collect();
        for b in &others {
            let honest = proof_from_value(&b.value).map(|p| verify(&p, &b.layout));
            if !matches!(honest, Some(ref v) if v.accepted()) {
                rep.machinery(&format!("C02: base proof {} is not accepted on its native build", b.name));
                continue;
            }
            rep.eval("honest:ok");
            let mut first_last: std::collections::BTreeMap<String, (jw::Path, jw::Path)> = std::collections::BTreeMap::new();
            for l in jw::leaves(&b.value) {
                let c = jw::path_class(&l);
                first_last.entry(c).and_modify(|e| e.1 = l.clone()).or_insert((l.clone(), l));
            }
            let mut cs: Vec<(jw::Path, Mutn)> = Vec::new();
            for (_, (a, z)) in first_last {
                cs.push((a.clone(), Mutn::Plus1));
                if z != a {
                    cs.push((z, Mutn::Plus1));
                }
            }
            for arr in jw::arrays(&b.value) {
                let n = jw::get(&b.value, &arr).unwrap().as_array().unwrap().len();
                for i in [0usize, n.saturating_sub(1)] {
                    if i < n {
                        let mut p = arr.clone();
                        p.push(jw::Seg::Idx(i));
                        cs.push((p, Mutn::Delete));
                    }
                }
            }
            cs.dedup_by(|x, y| x.0 == y.0 && x.1.name() == y.1.name());
            names.push(json!({"proof": b.name, "representatives": cs.len()}));
            let results: Vec<Option<crate::kit::panics::Verdict>> = cs
                .par_iter()
                .map(|(path, m)| apply(&b.value, path, m).and_then(|mv| proof_from_value(&mv)).map(|p| verify(&p, &b.layout)))
                .collect();
            for ((path, m), v) in cs.iter().zip(results) {
                if let Some(v) = v {
                    rep.eval(&format!("rep:{}:{}", m.kind(), v.short()));
                    rep.nontrivial_case(&format!("{}|{}|{}", b.name, jw::path_str(path), m.name()));
                    if v.accepted() {
                        rep.violation(&format!("tamper-accepted:{}:{}", jw::path_class(path), m.kind()),
                            &format!("{}: {} at {} is still accepted", b.name, m.name(), jw::path_str(path)),
                            json!({"kind": "tamper", "proof": b.name, "path": jw::path_str(path), "mutation": m.name()}));
                    }
                }
            }
        }
    }
    rep.extra.insert("bases".into(), json!(names));
    rep.bound_completed = format!("1 deviation; {} proofs on build {}; menu {:?}", bs.len(), build_name(), menu.iter().map(|m| m.kind()).collect::<Vec<_>>());
    rep
}

pub fn replay(ctx: &Ctx, case: &Value) -> super::ReplayResult {
    let name = case["proof"].as_str().ok_or("proof")?;
    let b = bases(ctx, true).into_iter().find(|b| b.name == name).ok_or("no such base proof on this build")?;
    let path = jw::parse_path(case["path"].as_str().ok_or("path")?);
    let m = Mutn::parse(case["mutation"].as_str().ok_or("mutation")?).ok_or("bad mutation")?;
    let mv = apply(&b.value, &path, &m).ok_or("mutation does not apply")?;
    let p = proof_from_value(&mv).ok_or("mutant does not type")?;
    let v = verify(&p, &b.layout);
    Ok((v.accepted(), format!("mutant -> {}", v.class())))
}
