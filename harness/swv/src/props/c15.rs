//! C15 - closed-form AIR boundary values equal their defining products.
use crate::kit::{f2b, fhex, fu, p_minus, panics, report::Report, Ctx};
use crate::refm::zint;
use num_bigint::BigUint;
use num_traits::{One, Zero};
use rayon::prelude::*;
use serde_json::{json, Value};
use starknet_crypto::Felt;
use swiftness_air::{
    diluted::get_diluted_product,
    public_memory::PublicInput,
};

/// Dilute(x): bit i of x moves to bit i*spacing (an integer; reduced modulo p only when it enters the field).
fn dilute(x: u32, spacing: u32, n_bits: u32) -> BigUint {
    let mut r = BigUint::zero();
    for i in 0..n_bits {
        if (x >> i) & 1 == 1 {
            r |= BigUint::one() << ((i * spacing) as usize);
        }
    }
    r
}

/// The defining recurrence r_1 = 1, r_{j+1} = r_j (1 + z u_j) + alpha u_j^2 over all
/// 2^n_bits diluted values, u_j = Dilute(j) - Dilute(j-1).
pub fn ref_diluted(n_bits: u32, spacing: u32, z: Felt, alpha: Felt) -> Felt {
    let mut r = Felt::ONE;
    let mut prev = BigUint::zero();
    for j in 1..(1u32 << n_bits) {
        let d = dilute(j, spacing, n_bits);
        let u = crate::kit::b2f(&(&d - &prev));
        prev = d;
        r = r * (Felt::ONE + z * u) + alpha * u * u;
    }
    r
}

fn point_menu(ctx: &Ctx, n: usize) -> Vec<Felt> {
    let mut r = ctx.rng(0x1500);
    let mut m = vec![Felt::ZERO, Felt::ONE, Felt::TWO, p_minus(1), r.felt(), r.felt()];
    m.truncate(n.max(3));
    m
}

fn diluted_case(n_bits: u32, spacing: u32, z: Felt, alpha: Felt) -> Option<String> {
    let got = match panics::catch(|| get_diluted_product(fu(n_bits as u64), fu(spacing as u64), z, alpha)) {
        Ok(g) => g,
        Err(p) => return Some(format!("panic {}", p.site())),
    };
    let want = ref_diluted(n_bits, spacing, z, alpha);
    if got != want {
        Some(format!("get_diluted_product({},{},z={},alpha={}) = {} but the recurrence gives {}", n_bits, spacing, fhex(&z), fhex(&alpha), fhex(&got), fhex(&want)))
    } else {
        None
    }
}

// ------------------------------------------------------------------ public memory
#[derive(Clone, Debug)]
struct PmCase {
    cells: Vec<(Felt, Felt)>,
    headers: Vec<(Felt, Felt, Felt, Felt)>, // start, size, hash, prod
    slack: u64,
    /// extra padding cells 2^k (column sizes at and beyond 2^32 / 2^64)
    slack_pow: Option<u32>,
    pad: (Felt, Felt),
    z: Felt,
    alpha: Felt,
}
impl PmCase {
    fn slack_total(&self) -> BigUint {
        BigUint::from(self.slack) + self.slack_pow.map(crate::kit::pow2).unwrap_or_default()
    }
    fn to_json(&self) -> Value {
        json!({"kind": "pubmem",
            "cells": self.cells.iter().map(|c| [fhex(&c.0), fhex(&c.1)]).collect::<Vec<_>>(),
            "headers": self.headers.iter().map(|h| [fhex(&h.0), fhex(&h.1), fhex(&h.2), fhex(&h.3)]).collect::<Vec<_>>(),
            "slack": self.slack, "slack_pow": self.slack_pow, "pad": [fhex(&self.pad.0), fhex(&self.pad.1)], "z": fhex(&self.z), "alpha": fhex(&self.alpha)})
    }
    fn from_json(v: &Value) -> Option<PmCase> {
        let fh = |x: &Value| Felt::from_hex(x.as_str()?).ok();
        Some(PmCase {
            cells: v["cells"].as_array()?.iter().map(|c| Some((fh(&c[0])?, fh(&c[1])?))).collect::<Option<_>>()?,
            headers: v["headers"].as_array()?.iter().map(|c| Some((fh(&c[0])?, fh(&c[1])?, fh(&c[2])?, fh(&c[3])?))).collect::<Option<_>>()?,
            slack: v["slack"].as_u64()?,
            slack_pow: v.get("slack_pow").and_then(|x| x.as_u64()).map(|x| x as u32),
            pad: (fh(&v["pad"][0])?, fh(&v["pad"][1])?),
            z: fh(&v["z"])?,
            alpha: fh(&v["alpha"])?,
        })
    }
    fn total(&self) -> BigUint {
        let mut t = BigUint::from(self.cells.len());
        for h in &self.headers {
            t += f2b(&h.1);
        }
        t
    }
    fn public_input(&self) -> PublicInput {
        crate::refm::make_public_input(fu(10), Felt::ZERO, fu(100), fu(1), None, &[], self.pad, &self.cells, &self.headers)
    }
    /// naive product on big integers; None when a factor vanishes (division by zero: not judged here)
    fn reference(&self) -> Option<BigUint> {
        let (z, a) = (f2b(&self.z), f2b(&self.alpha));
        let size = self.total() + self.slack_total();
        let mut den = BigUint::one();
        for c in &self.cells {
            den = zint::mul(&den, &zint::sub(&z, &zint::add(&f2b(&c.0), &zint::mul(&a, &f2b(&c.1)))));
        }
        for h in &self.headers {
            den = zint::mul(&den, &f2b(&h.3));
        }
        let pad = zint::sub(&z, &zint::add(&f2b(&self.pad.0), &zint::mul(&a, &f2b(&self.pad.1))));
        den = zint::mul(&den, &zint::pow(&pad, &self.slack_total()));
        if den.is_zero() {
            return None;
        }
        Some(zint::mul(&zint::pow(&z, &size), &zint::inv(&den)))
    }
    fn check(&self) -> (String, Option<String>) {
        let want = self.reference();
        let size = crate::kit::b2f(&(self.total() + self.slack_total()));
        let pi = self.public_input();
        let (z, alpha) = (self.z, self.alpha);
        // the ratio is defined when no factor of the denominator vanishes; otherwise an error value is due
        match (panics::catch(|| pi.get_public_memory_product_ratio(z, alpha, size)), want) {
            (Ok(Ok(g)), Some(w)) if f2b(&g) == w => ("ratio-ok".into(), None),
            (Ok(Ok(g)), Some(w)) => ("ratio-differs".into(), Some(format!("ratio = {} but z^size / prod = {:#x}", fhex(&g), w))),
            (Ok(Err(_)), None) => ("vanishing-factor:error-value".into(), None),
            (Ok(Ok(g)), None) => ("vanishing-factor:value".into(), Some(format!("a factor of the denominator vanishes but a ratio {} is returned", fhex(&g)))),
            (Ok(Err(e)), Some(_)) => ("ratio-refused".into(), Some(format!("the ratio is defined but an error is returned: {:?}", e))),
            (Err(p), _) => ("panic".into(), Some(format!("panic {}", p.site()))),
        }
    }
}

pub fn run(ctx: &Ctx) -> Report {
    let mut rep = Report::new(
        "C15",
        "exploration",
        "diluted product: all 128 (n_bits in 1..=16, spacing in 1..=8) and 40 wide-gap pairs (n_bits in {2,5,10,12,16}, spacing in {9,16,23,40,64,127,128,251}) x (z, alpha) point menu against the defining recurrence \
         over all 2^n_bits diluted values; plus, per the degree argument (both sides have degree 2^n_bits - 1 in z and 1 in \
         alpha), 2^n_bits distinct z x 2 alpha for n_bits<=10 (quick) / additionally the production instance (16,4) on 65536 z \
         (thorough), which makes the equality an identity. Public-memory ratio: main page of 0..=3 cells from a menu x 0..=2 \
         continuous headers x slack {0,1,2,1000} x padding menu x (z,alpha) menu against a naive big-integer product. \
         Non-trivial: n_bits >= 2 or a non-empty memory; distinct by the case tuple",
    );
    rep.trust("Felt add/mul (starknet-types-core) inside the diluted recurrence; num-bigint for the public-memory product");
    let quick = ctx.quick();
    let menu = point_menu(ctx, if quick { 4 } else { 6 });
    // ---- diluted, point menu
    let mut pairs: Vec<(u32, u32)> = (1..=16u32).flat_map(|n| (1..=8u32).map(move |s| (n, s))).collect();
    // wide gaps: (n_bits - 1) * spacing beyond 64, 128 and 251 bits (gaps that do not fit a machine word / the field)
    for n in [2u32, 5, 10, 12, 16] {
        for sp in [9u32, 16, 23, 40, 64, 127, 128, 251] {
            pairs.push((n, sp));
        }
    }
    let res: Vec<Report> = pairs
        .par_iter()
        .map(|&(n, s)| {
            let mut r = Report::new("C15", "exploration", "");
            for z in &menu {
                for a in &menu {
                    let bad = diluted_case(n, s, *z, *a);
                    let class = if bad.is_none() { "diluted-ok" } else { "diluted-differs" };
                    r.eval(class);
                    if n >= 2 {
                        r.nontrivial_case(&format!("dil|{}|{}|{}|{}", n, s, fhex(z), fhex(a)));
                    }
                    if (n, s) == (16, 4) || (n, s) == (1, 1) || (n, s) == (3, 8) {
                        r.sample(&format!("{}-{}-{}", class, n, s), json!({"kind": "diluted", "n_bits": n, "spacing": s, "z": fhex(z), "alpha": fhex(a), "observed": class}));
                    }
                    if let Some(b) = bad {
                        r.violation(&format!("diluted:{}", if n % 2 == 1 { "odd-n_bits" } else { "even-n_bits" }), &b,
                            json!({"kind": "diluted", "n_bits": n, "spacing": s, "z": fhex(z), "alpha": fhex(a)}));
                    }
                }
            }
            r
        })
        .collect();
    for r in res {
        rep.merge(r);
    }
    // ---- diluted, degree argument
    let mut ident: Vec<(u32, u32)> = (1..=10u32).flat_map(|n| [1u32, 4, 8].into_iter().map(move |s| (n, s))).collect();
    if !quick {
        ident.push((16, 4));
        ident.push((12, 3));
    }
    let mut settled = Vec::new();
    for (n, s) in ident {
        let npts = 1u64 << n;
        let alphas = [Felt::ONE, ctx.rng(0x1501).felt()];
        let zs: Vec<u64> = (0..npts).collect();
        let bads: Vec<Option<String>> = zs
            .par_iter()
            .map(|&k| {
                // distinct z: k-th is seed-derived offset + k
                let z = ctx.rng(0x1502).felt() + fu(k);
                for a in &alphas {
                    if let Some(b) = diluted_case(n, s, z, *a) {
                        return Some(b);
                    }
                }
                None
            })
            .collect();
        let nb = bads.iter().filter(|b| b.is_some()).count();
        rep.evals(if nb == 0 { "diluted-identity-point-ok" } else { "diluted-identity-point-differs" }, npts * 2);
        rep.nontrivial_case(&format!("dil-identity|{}|{}", n, s));
        if let Some(Some(b)) = bads.into_iter().find(|b| b.is_some()) {
            rep.violation(&format!("diluted:identity:{}", if n % 2 == 1 { "odd-n_bits" } else { "even-n_bits" }), &b, json!({"kind": "diluted-identity", "n_bits": n, "spacing": s}));
        } else {
            settled.push(format!("({},{})", n, s));
        }
    }
    rep.extra.insert("identity_settled_for_all_z_alpha".into(), json!(settled));
    // ---- public memory ratio
    let mut rr = ctx.rng(0x1503);
    let cell_menu = vec![(Felt::ONE, Felt::ZERO), (fu(2), rr.felt()), (rr.felt(), p_minus(1)), (fu(1 << 40), fu(7))];
    let hdr_menu = vec![(fu(100), fu(3), rr.felt(), rr.felt()), (fu(500), Felt::ZERO, rr.felt(), Felt::ONE), (fu(9), fu(1000), rr.felt(), p_minus(1))];
    let pad_menu = vec![(Felt::ONE, Felt::ZERO), (rr.felt(), rr.felt()), (Felt::ZERO, Felt::ZERO)];
    let zmenu: Vec<Felt> = if quick { vec![Felt::ONE, Felt::TWO, rr.felt()] } else { vec![Felt::ONE, Felt::TWO, p_minus(1), rr.felt()] };
    let amenu: Vec<Felt> = if quick { vec![Felt::ZERO, rr.felt()] } else { vec![Felt::ZERO, Felt::ONE, rr.felt()] };
    let mut cases = Vec::new();
    // main pages: every sequence (with repetition, order matters) of 0..=3 cells from the menu
    let mut pages: Vec<Vec<usize>> = vec![vec![]];
    for len in 1..=3u32 {
        let m = cell_menu.len();
        for code in 0..m.pow(len) {
            let mut c = code;
            let mut idx = Vec::new();
            for _ in 0..len {
                idx.push(c % m);
                c /= m;
            }
            pages.push(idx);
        }
    }
    let hdr_sets: Vec<Vec<usize>> = vec![vec![], vec![0], vec![1], vec![2], vec![0, 1], vec![2, 0]];
    for pg in &pages {
        if quick && pg.len() == 3 && pg[0] != 0 {
            continue;
        }
        for hs in &hdr_sets {
            for &slack in &[0u64, 1, 2, 1000] {
                for pad in &pad_menu {
                    for z in &zmenu {
                        for a in &amenu {
                            cases.push(PmCase {
                                cells: pg.iter().map(|&i| cell_menu[i]).collect(),
                                headers: hs.iter().map(|&i| hdr_menu[i]).collect(),
                                slack,
                                slack_pow: None,
                                pad: *pad,
                                z: *z,
                                alpha: *a,
                            });
                        }
                    }
                }
            }
        }
    }
    // column sizes at and beyond 2^32 / 2^64 (exponents that do not fit a machine word)
    for pg in pages.iter().filter(|p| p.len() <= 1) {
        for hs in &hdr_sets {
            for &slack in &[0u64, 1] {
                for k in [32u32, 63, 64, 70, 100, 127] {
                    for pad in &pad_menu[..2] {
                        cases.push(PmCase {
                            cells: pg.iter().map(|&i| cell_menu[i]).collect(),
                            headers: hs.iter().map(|&i| hdr_menu[i]).collect(),
                            slack,
                            slack_pow: Some(k),
                            pad: *pad,
                            z: zmenu[zmenu.len() - 1],
                            alpha: amenu[amenu.len() - 1],
                        });
                    }
                }
            }
        }
    }
    let res: Vec<(String, Option<String>)> = cases.par_iter().map(|c| c.check()).collect();
    for (c, (class, bad)) in cases.iter().zip(res) {
        rep.eval(&class);
        if !c.cells.is_empty() || !c.headers.is_empty() {
            rep.nontrivial_case(&c.to_json().to_string());
        }
        rep.sample(&format!("{}-{}-{}", class, c.cells.len(), c.headers.len()), c.to_json());
        if let Some(b) = bad {
            let key = format!("public_memory_ratio:{}:{}", class, if c.slack_pow.is_some() { "huge-column" } else if c.slack == 0 { "no-padding" } else { "padded" });
            rep.violation(&key, &b, c.to_json());
        }
    }
    rep.bound_completed = format!("128 (n_bits,spacing) pairs x {}x{} points; identity settled for {} instances; {} public-memory cases", menu.len(), menu.len(), settled.len(), cases.len());
    rep
}

pub fn replay(ctx: &Ctx, case: &Value) -> super::ReplayResult {
    let fh = |k: &str| -> Result<Felt, String> { Felt::from_hex(case[k].as_str().ok_or(k.to_string())?).map_err(|e| e.to_string()) };
    match case["kind"].as_str() {
        Some("diluted") => {
            let bad = diluted_case(case["n_bits"].as_u64().ok_or("n_bits")? as u32, case["spacing"].as_u64().ok_or("spacing")? as u32, fh("z")?, fh("alpha")?);
            Ok((bad.is_some(), bad.unwrap_or("equal".into())))
        }
        Some("diluted-identity") => {
            let (n, s) = (case["n_bits"].as_u64().ok_or("n_bits")? as u32, case["spacing"].as_u64().ok_or("spacing")? as u32);
            for k in 0..(1u64 << n) {
                let z = ctx.rng(0x1502).felt() + fu(k);
                if let Some(b) = diluted_case(n, s, z, Felt::ONE) {
                    return Ok((true, b));
                }
            }
            Ok((false, "equal on all points".into()))
        }
        Some("pubmem") => {
            let c = PmCase::from_json(case).ok_or("bad pubmem case")?;
            let (class, bad) = c.check();
            Ok((bad.is_some(), format!("{} {}", class, bad.unwrap_or_default())))
        }
        _ => Err("unknown replay kind".into()),
    }
}
