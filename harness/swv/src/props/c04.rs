//! C04 - Merkle vector decommitment is complete and binding for all shapes.
//! Shapes (height, friendly-layer boundary, query subset) are enumerated exhaustively
//! within the tier's bound; every single-position corruption of each honest instance is
//! executed on the real `vector_commitment_decommit`.
use crate::kit::{explore::subsets, fhex, fu, panics::{verdict, Verdict}, report::Report, Ctx};
use crate::refm::merkle::{Tree, Variant, VARIANTS};
use rayon::prelude::*;
use serde_json::{json, Value};
use starknet_crypto::Felt;
use swiftness_commitment::vector::{
    config::Config,
    decommit::vector_commitment_decommit,
    types::{Commitment, Query, Witness},
};

pub fn decommit(root: Felt, height: u64, n_friendly: u64, queries: &[(Felt, Felt)], wit: &[Felt]) -> Verdict {
    let commitment = Commitment {
        config: Config { height: fu(height), n_verifier_friendly_commitment_layers: fu(n_friendly) },
        commitment_hash: root,
    };
    let qs: Vec<Query> = queries.iter().map(|(i, v)| Query { index: *i, value: *v }).collect();
    let w = Witness { authentications: wit.to_vec() };
    verdict(|| vector_commitment_decommit(commitment, &qs, w))
}

/// Query sets for trees that cannot be materialised: (height, tag, sorted distinct leaf indices).
pub fn tall_shapes(ctx: &Ctx) -> Vec<(u32, String, Vec<u128>)> {
    let mut out: Vec<(u32, String, Vec<u128>)> = Vec::new();
    let mut rng = ctx.rng(0x04a0);
    let heights: Vec<u32> = if ctx.quick() { vec![11, 16, 30, 31, 32, 33, 40, 63, 64] } else { (11..=64).collect() };
    for h in heights {
        let n: u128 = 1u128 << h;
        let mut push = |tag: &str, mut v: Vec<u128>| {
            v.sort();
            v.dedup();
            v.retain(|x| *x < n);
            if !v.is_empty() {
                out.push((h, tag.to_string(), v));
            }
        };
        push("first", vec![0]);
        push("last", vec![n - 1]);
        push("around-2^32", vec![(1u128 << 32) - 1, 1u128 << 32, (1u128 << 32) + 1]);
        push("around-2^63", vec![(1u128 << 63) - 1, 1u128 << 63]);
        push("48-spread", (0..48).map(|_| (rng.next_u64() as u128 | ((rng.next_u64() as u128) << 64)) % n).collect());
        push("48-consecutive", (0..48u128).map(|k| n / 3 + k).collect());
        push("48-at-the-end", (0..48u128).map(|k| n - 1 - 2 * k).collect());
        if h == 11 {
            push("all-but-one", (0..n).filter(|x| *x != 777).collect());
            push("every-second", (0..n).step_by(2).collect());
        }
        if h == 16 {
            push("300-spread", (0..300).map(|_| rng.next_u64() as u128 % n).collect());
            push("1500-spread", (0..1500).map(|_| rng.next_u64() as u128 % n).collect());
        }
    }
    out
}

fn tall_trees(ctx: &Ctx, own: Variant, rep: &mut Report) {
    use crate::refm::merkle::SparseTree;
    use rayon::prelude::*;
    let shapes = tall_shapes(ctx);
    let parts: Vec<Report> = shapes
        .par_iter()
        .map(|(h, tag, qs)| {
            let mut r = Report::new("C04", "exploration", "");
            let mut rng = ctx.rng(0x04b0 + *h as u64);
            for f in [0u64, 10, *h as u64 + 1] {
                let leaves: std::collections::BTreeMap<u128, Felt> = qs.iter().map(|q| (*q, rng.felt())).collect();
                let t = SparseTree::open(own, *h, f, Felt::ZERO, &leaves);
                let queries: Vec<(Felt, Felt)> = leaves.iter().map(|(i, v)| (crate::kit::b2f(&num_bigint::BigUint::from(*i)), *v)).collect();
                let case = |c: &str| json!({"kind": "tall", "h": h, "f": f, "shape": tag, "corruption": c});
                // honest
                let v = decommit(t.root, *h as u64, f, &queries, &t.auths);
                r.eval(&format!("tall:honest:{}", v.short()));
                r.nontrivial_case(&format!("tall|{}|{}|{}|honest", h, f, tag));
                if !v.accepted() {
                    r.violation(&format!("vector_decommit:honest:rejected:tall:{}", tag), &format!("honest opening of {} leaves ({}) in a tree of height {} (f={}) rejected: {}", qs.len(), tag, h, f, v.class()), case("none"));
                    continue;
                }
                // a queried value / an authentication node / the root changed: must be rejected
                for (c, which) in [("first-value", 0usize), ("last-value", queries.len() - 1)] {
                    let mut q2 = queries.clone();
                    q2[which].1 += Felt::ONE;
                    let v = decommit(t.root, *h as u64, f, &q2, &t.auths);
                    r.eval(&format!("tall:value:{}", v.short()));
                    r.nontrivial_case(&format!("tall|{}|{}|{}|{}", h, f, tag, c));
                    if v.accepted() {
                        r.violation(&format!("vector_decommit:value:accepted:tall:{}", tag), &format!("{} changed, {} leaves ({}) height {} f={}: accepted", c, qs.len(), tag, h, f), case(c));
                    }
                }
                if !t.auths.is_empty() {
                    for (c, which) in [("first-auth", 0usize), ("last-auth", t.auths.len() - 1), ("middle-auth", t.auths.len() / 2)] {
                        let mut a2 = t.auths.clone();
                        a2[which] += Felt::ONE;
                        let v = decommit(t.root, *h as u64, f, &queries, &a2);
                        r.eval(&format!("tall:auth:{}", v.short()));
                        r.nontrivial_case(&format!("tall|{}|{}|{}|{}", h, f, tag, c));
                        if v.accepted() {
                            r.violation(&format!("vector_decommit:sibling:accepted:tall:{}", tag), &format!("{} changed, {} leaves ({}) height {} f={}: accepted", c, qs.len(), tag, h, f), case(c));
                        }
                    }
                }
                let v = decommit(t.root + Felt::ONE, *h as u64, f, &queries, &t.auths);
                r.eval(&format!("tall:root:{}", v.short()));
                if v.accepted() {
                    r.violation(&format!("vector_decommit:root:accepted:tall:{}", tag), &format!("root changed, {} leaves ({}) height {} f={}: accepted", qs.len(), tag, h, f), case("root"));
                }
            }
            r
        })
        .collect();
    for p in parts {
        rep.merge(p);
    }
}

pub fn leaves_for(ctx: &Ctx, h: u32, special: bool) -> Vec<Felt> {
    let n = 1usize << h;
    if special {
        // small / extreme values, still pairwise distinct
        let menu = [Felt::ZERO, Felt::ONE, crate::kit::p_minus(1), Felt::TWO, crate::kit::p_minus(2)];
        (0..n).map(|i| if i < menu.len() { menu[i] } else { fu(1000 + i as u64) }).collect()
    } else {
        let mut r = ctx.rng(0x0400 + h as u64);
        r.felts(n)
    }
}

#[derive(Clone, Debug)]
pub enum Corr {
    None,
    Value(usize),
    /// queried value + 2^k / sibling + 2^k: differ only above the width of a masked digest
    ValueHigh(usize, u32),
    SiblingHigh(usize, u32),
    Index(usize, u64),
    Sibling(usize),
    Root,
    /// root + 2^k
    RootHigh(u32),
    DeleteSibling(usize),
    OtherVariant(usize),
}
impl Corr {
    fn to_json(&self) -> Value {
        match self {
            Corr::None => json!({"c": "none"}),
            Corr::Value(i) => json!({"c": "value", "i": i}),
            Corr::ValueHigh(i, k) => json!({"c": "value_high", "i": i, "k": k}),
            Corr::SiblingHigh(i, k) => json!({"c": "sibling_high", "k": i, "bit": k}),
            Corr::Index(i, j) => json!({"c": "index", "i": i, "to": j}),
            Corr::Sibling(k) => json!({"c": "sibling", "k": k}),
            Corr::Root => json!({"c": "root"}),
            Corr::RootHigh(k) => json!({"c": "root_high", "k": k}),
            Corr::DeleteSibling(k) => json!({"c": "delete_sibling", "k": k}),
            Corr::OtherVariant(v) => json!({"c": "other_variant", "v": v}),
        }
    }
    fn from_json(v: &Value) -> Option<Corr> {
        let g = |k: &str| v.get(k).and_then(|x| x.as_u64());
        Some(match v.get("c")?.as_str()? {
            "none" => Corr::None,
            "value" => Corr::Value(g("i")? as usize),
            "value_high" => Corr::ValueHigh(g("i")? as usize, g("k")? as u32),
            "sibling_high" => Corr::SiblingHigh(g("k")? as usize, g("bit")? as u32),
            "index" => Corr::Index(g("i")? as usize, g("to")?),
            "sibling" => Corr::Sibling(g("k")? as usize),
            "root" => Corr::Root,
            "root_high" => Corr::RootHigh(g("k")? as u32),
            "delete_sibling" => Corr::DeleteSibling(g("k")? as usize),
            "other_variant" => Corr::OtherVariant(g("v")? as usize),
            _ => return None,
        })
    }
    fn kind(&self) -> &'static str {
        match self {
            Corr::None => "honest",
            Corr::Value(_) => "value",
            Corr::ValueHigh(..) => "value_high",
            Corr::SiblingHigh(..) => "sibling_high",
            Corr::Index(..) => "index",
            Corr::Sibling(_) => "sibling",
            Corr::Root => "root",
            Corr::RootHigh(_) => "root_high",
            Corr::DeleteSibling(_) => "delete_sibling",
            Corr::OtherVariant(_) => "other_variant",
        }
    }
}

pub struct Shape<'a> {
    pub h: u32,
    pub f: u64,
    pub special: bool,
    pub qs: &'a [usize],
}

/// Executes one case; returns (expected_accept, verdict).
pub fn exec(ctx: &Ctx, own: Variant, sh: &Shape, tree: Option<&Tree>, corr: &Corr) -> (bool, Verdict) {
    let built;
    let tree = match tree {
        Some(t) => t,
        None => {
            built = Tree::build(own, &leaves_for(ctx, sh.h, sh.special), sh.f);
            &built
        }
    };
    let mut root = tree.root();
    let mut queries: Vec<(Felt, Felt)> =
        sh.qs.iter().map(|&i| (fu(i as u64), tree.levels[sh.h as usize][i])).collect();
    let (mut wit, _) = tree.witness(sh.qs);
    let mut expect = false;
    match corr {
        Corr::None => expect = true,
        Corr::Value(i) => queries[*i].1 += Felt::ONE,
        Corr::ValueHigh(i, k) => queries[*i].1 = add_pow2(&queries[*i].1, *k),
        Corr::SiblingHigh(i, k) => wit[*i] = add_pow2(&wit[*i], *k),
        Corr::Index(i, j) => queries[*i].0 = fu(*j),
        Corr::Sibling(k) => wit[*k] += Felt::ONE,
        Corr::Root => root += Felt::ONE,
        Corr::RootHigh(k) => root += Felt::TWO.pow(*k as u128),
        Corr::DeleteSibling(k) => {
            wit.remove(*k);
        }
        Corr::OtherVariant(vi) => {
            // a completely honest instance of another hash variant: must be accepted
            // exactly when no masked layer lies on a path (f >= h, or h = 0)
            let other = VARIANTS[*vi];
            let t2 = Tree::build(other, &leaves_for(ctx, sh.h, sh.special), sh.f);
            root = t2.root();
            wit = t2.witness(sh.qs).0;
            expect = sh.h == 0 || sh.f >= sh.h as u64;
        }
    }
    (expect, decommit(root, sh.h as u64, sh.f, &queries, &wit))
}

/// v + 2^k, reduced: used with k in {160, 248, 250}; all tree values are < 2^250 so the sum
/// differs from v and from every other leaf
fn add_pow2(v: &Felt, k: u32) -> Felt {
    crate::kit::b2f(&(crate::kit::f2b(v) + crate::kit::pow2(k)))
}

fn corruptions(own: Variant, sh: &Shape, n_wit: usize) -> Vec<Corr> {
    let mut out = vec![Corr::None, Corr::Root, Corr::RootHigh(160), Corr::RootHigh(248), Corr::RootHigh(250)];
    let n = 1u64 << sh.h;
    for i in 0..sh.qs.len() {
        out.push(Corr::Value(i));
        if sh.qs.len() <= 3 {
            for k in [160u32, 248, 250] {
                out.push(Corr::ValueHigh(i, k));
            }
        }
        let cur = sh.qs[i] as u64;
        let mut targets: Vec<u64> = Vec::new();
        if sh.h <= 3 {
            targets.extend(0..n);
        } else {
            if cur > 0 {
                targets.push(cur - 1);
            }
            targets.push(cur + 1);
            for b in 0..sh.h {
                targets.push(cur ^ (1 << b));
            }
        }
        targets.push(cur + n); // out of range
        targets.sort();
        targets.dedup();
        for j in targets {
            if j == cur || (j < n && sh.qs.contains(&(j as usize))) {
                continue;
            }
            if j >= n && j != cur + n {
                continue;
            }
            out.push(Corr::Index(i, j));
        }
    }
    for k in 0..n_wit {
        out.push(Corr::Sibling(k));
        if sh.qs.len() <= 3 {
            for b in [160u32, 248, 250] {
                out.push(Corr::SiblingHigh(k, b));
            }
        }
        out.push(Corr::DeleteSibling(k));
    }
    for (vi, v) in VARIANTS.iter().enumerate() {
        if *v != own {
            out.push(Corr::OtherVariant(vi));
        }
    }
    out
}

fn shape_json(own: Variant, sh: &Shape, corr: &Corr, v: &Verdict) -> Value {
    json!({"kind": "vec", "variant": own.name(), "h": sh.h, "f": sh.f, "special": sh.special,
           "queries": sh.qs, "corruption": corr.to_json(), "observed": v.class()})
}

pub fn run(ctx: &Ctx) -> Report {
    let own = Variant::of_build();
    let mut rep = Report::new(
        "C04",
        "exploration",
        "every (height h, friendly-layer count f in 0..=h+1, non-empty sorted query subset) within the tier bound, \
         each with the honest instance and every single-position corruption (queried value, index -> other index / \
         out of range, consumed sibling, root, deleted sibling, value / sibling + 2^160 / 2^248 / 2^250 for query sets of size <= 3, honest instance of each other hash variant); a case \
         is non-trivial when its honest instance was accepted; distinct by (variant,h,f,subset,corruption)",
    );
    rep.trust("Poseidon (starknet-crypto), Keccak-256 (sha3), Blake2s-256 (blake2) as primitives");
    rep.assume("collision resistance of the node hashes on the explored leaves");
    // (h, max subset size, special-leaves tree too)
    let plan: Vec<(u32, usize)> = if ctx.quick() {
        vec![(0, 1), (1, 2), (2, 4), (3, 8), (4, 2)]
    } else {
        vec![(0, 1), (1, 2), (2, 4), (3, 8), (4, 16), (5, 3), (6, 3)]
    };
    let mut bound = Vec::new();
    for (h, maxsz) in plan {
        let subs = subsets(1 << h, maxsz);
        bound.push(format!("h={}: {} subsets (size<={})", h, subs.len(), maxsz));
        for special in [false, true] {
            if special && h > 3 {
                continue;
            }
            let leaves = leaves_for(ctx, h, special);
            for f in 0..=(h as u64 + 1) {
                let tree = Tree::build(own, &leaves, f);
                let part: Vec<Report> = subs
                    .par_chunks(64)
                    .map(|chunk| {
                        let mut r = Report::new("C04", "exploration", "");
                        for qs in chunk {
                            let sh = Shape { h, f, special, qs };
                            let n_wit = tree.witness(qs).0.len();
                            let mut honest_ok = false;
                            for corr in corruptions(own, &sh, n_wit) {
                                let (expect, v) = exec(ctx, own, &sh, Some(&tree), &corr);
                                let class = format!("{}:{}", corr.kind(), v.short());
                                r.eval(&class);
                                if matches!(corr, Corr::None) {
                                    honest_ok = v.accepted();
                                }
                                if honest_ok {
                                    r.nontrivial_case(&format!("{}|{}|{}|{}|{:?}|{:?}", own.name(), h, f, special, qs, corr));
                                }
                                r.sample(&class, shape_json(own, &sh, &corr, &v));
                                if v.accepted() != expect {
                                    let what = if expect {
                                        format!("honest {} instance rejected ({})", corr.kind(), v.class())
                                    } else {
                                        format!("corruption '{}' accepted", corr.kind())
                                    };
                                    // key: corruption kind + whether masked layers are involved
                                    let key = format!(
                                        "vector_decommit:{}:{}:{}",
                                        corr.kind(),
                                        if expect { "rejected" } else { "accepted" },
                                        if f >= h as u64 { "all-friendly" } else if f == 0 { "all-masked" } else { "mixed" }
                                    );
                                    r.violation(&key, &format!("{} (variant {}, h={}, f={}, queries={:?})", what, own.name(), h, f, qs),
                                        shape_json(own, &sh, &corr, &v));
                                }
                            }
                        }
                        r
                    })
                    .collect();
                for p in part {
                    rep.merge(p);
                }
            }
        }
    }
    // structural family at height 10 (thorough): single query, adjacent siblings,
    // first/last, full left subtree
    if !ctx.quick() {
        let h = 10u32;
        let leaves = leaves_for(ctx, h, false);
        let fam: Vec<Vec<usize>> = vec![
            vec![0], vec![1023], vec![512], vec![0, 1], vec![1022, 1023], vec![0, 1023], vec![511, 512],
            (0..512).collect(), (0..1024).step_by(2).collect(), vec![3, 4, 5, 6, 700],
        ];
        for f in [0u64, 1, 5, 9, 10, 11] {
            let tree = Tree::build(own, &leaves, f);
            let part: Vec<Report> = fam
                .par_iter()
                .map(|qs| {
                    let mut r = Report::new("C04", "exploration", "");
                    let sh = Shape { h, f, special: false, qs };
                    let n_wit = tree.witness(qs).0.len();
                    for corr in corruptions(own, &sh, n_wit) {
                        let (expect, v) = exec(ctx, own, &sh, Some(&tree), &corr);
                        let class = format!("{}:{}", corr.kind(), v.short());
                        r.eval(&class);
                        r.nontrivial_case(&format!("{}|{}|{}|{:?}|{:?}", own.name(), h, f, qs, corr));
                        if v.accepted() != expect {
                            let key = format!("vector_decommit:{}:{}:h10", corr.kind(), if expect { "rejected" } else { "accepted" });
                            r.violation(&key, &format!("h=10 f={} queries={:?} corruption {:?}: {}", f, qs, corr, v.class()),
                                shape_json(own, &sh, &corr, &v));
                        }
                    }
                    r
                })
                .collect();
            for p in part {
                rep.merge(p);
            }
        }
        bound.push("h=10: structural family of 10 query sets".into());
    }
    // trees that cannot be materialised (heights up to 64, hundreds of opened leaves): sparse reference
    tall_trees(ctx, own, &mut rep);
    bound.push("sparse trees of height 11..=64 (quick: 11, 16, 30..33, 40, 63, 64) with up to 2047 opened leaves".to_string());
    rep.bound_completed = bound.join("; ");
    rep.extra.insert("variant".into(), json!(own.name()));
    rep
}

pub fn replay(ctx: &Ctx, case: &Value) -> super::ReplayResult {
    if case["kind"] == "tall" {
        let mut rep = Report::new("C04", "exploration", "");
        tall_trees(ctx, Variant::of_build(), &mut rep);
        let want = format!("tall:{}", case["shape"].as_str().unwrap_or(""));
        let hit: Vec<&String> = rep.violations.keys().filter(|k| k.ends_with(&want)).collect();
        return Ok((!hit.is_empty(), format!("{:?}", hit)));
    }
    let own = Variant::of_build();
    let h = case["h"].as_u64().ok_or("h")? as u32;
    let f = case["f"].as_u64().ok_or("f")?;
    let special = case["special"].as_bool().unwrap_or(false);
    let qs: Vec<usize> = case["queries"].as_array().ok_or("queries")?.iter().map(|x| x.as_u64().unwrap() as usize).collect();
    let corr = Corr::from_json(&case["corruption"]).ok_or("corruption")?;
    let sh = Shape { h, f, special, qs: &qs };
    let (expect, v) = exec(ctx, own, &sh, None, &corr);
    let root = Tree::build(own, &leaves_for(ctx, h, special), f).root();
    Ok((v.accepted() != expect, format!("expected_accept={} observed={} root={}", expect, v.class(), fhex(&root))))
}
