//! C07 - FRI rejects inconsistent layers and functions above the degree bound.
use crate::kit::{fu, panics::Verdict, report::Report, Ctx};
use crate::props::c06::{commit_checked, query_sets, real_commit, spec_from_json, spec_json, specs, Instance, Spec};
use crate::refm::{fri::{domain, horner, Params, Prover}, merkle::Variant};
use rayon::prelude::*;
use serde_json::{json, Value};
use starknet_crypto::Felt;

#[derive(Clone, Debug)]
pub enum Corr {
    Value(usize),
    Leaf(usize, usize),
    Auth(usize, usize),
    Root(usize),
    /// commitment / authentication node + 2^250 (differs only above every digest width)
    RootHigh(usize),
    AuthHigh(usize, usize),
    EvalPoint(usize),
    LastCoeff(usize),
    LastShort,
    LastLong(bool),
    /// last layer zero-padded (same polynomial) or cut to this many coefficients
    LastLen(usize),
    DeleteLeaf(usize, usize),
    DeleteAuth(usize, usize),
    DropLayerWitness,
    /// the evaluation point of query i removed (points one shorter than values): the last queries must not go unchecked
    DeletePoint(usize),
    /// the input value of query i removed
    DeleteValue(usize),
    /// whole-coset query sets only: the last query's evaluation point is dropped, its input value is changed, and
    /// the honest value is supplied as a sibling leaf instead - the changed queried value must not go unchecked
    LastQueryUnchecked,
}
impl Corr {
    pub fn kind(&self) -> &'static str {
        match self {
            Corr::Value(_) => "input-value",
            Corr::Leaf(..) => "sibling-leaf",
            Corr::Auth(..) => "auth-node",
            Corr::Root(_) => "layer-commitment",
            Corr::RootHigh(_) => "layer-commitment-high-bit",
            Corr::AuthHigh(..) => "auth-node-high-bit",
            Corr::EvalPoint(_) => "eval-point",
            Corr::LastCoeff(_) => "last-coefficient",
            Corr::LastShort => "last-layer-short",
            Corr::LastLong(_) => "last-layer-long",
            Corr::LastLen(_) => "last-layer-length",
            Corr::DeleteLeaf(..) => "delete-leaf",
            Corr::DeleteAuth(..) => "delete-auth",
            Corr::DropLayerWitness => "drop-layer-witness",
            Corr::DeletePoint(_) => "delete-eval-point-of-a-query",
            Corr::DeleteValue(_) => "delete-input-value",
            Corr::LastQueryUnchecked => "last-query-value-unchecked",
        }
    }
    pub fn to_json(&self) -> Value {
        match self {
            Corr::Value(i) => json!({"c": "value", "i": i}),
            Corr::Leaf(t, i) => json!({"c": "leaf", "t": t, "i": i}),
            Corr::Auth(t, i) => json!({"c": "auth", "t": t, "i": i}),
            Corr::Root(t) => json!({"c": "root", "t": t}),
            Corr::RootHigh(t) => json!({"c": "roothigh", "t": t}),
            Corr::AuthHigh(t, i) => json!({"c": "authhigh", "t": t, "i": i}),
            Corr::EvalPoint(t) => json!({"c": "eval", "t": t}),
            Corr::LastCoeff(i) => json!({"c": "lastcoeff", "i": i}),
            Corr::LastShort => json!({"c": "lastshort"}),
            Corr::LastLong(z) => json!({"c": "lastlong", "zero": z}),
            Corr::LastLen(n) => json!({"c": "lastlen", "n": n}),
            Corr::DeleteLeaf(t, i) => json!({"c": "delleaf", "t": t, "i": i}),
            Corr::DeleteAuth(t, i) => json!({"c": "delauth", "t": t, "i": i}),
            Corr::DropLayerWitness => json!({"c": "droplayer"}),
            Corr::DeletePoint(i) => json!({"c": "delpoint", "i": i}),
            Corr::DeleteValue(i) => json!({"c": "delvalue", "i": i}),
            Corr::LastQueryUnchecked => json!({"c": "lastunchecked"}),
        }
    }
    pub fn from_json(v: &Value) -> Option<Corr> {
        let g = |k: &str| v.get(k).and_then(|x| x.as_u64()).map(|x| x as usize);
        Some(match v.get("c")?.as_str()? {
            "value" => Corr::Value(g("i")?),
            "leaf" => Corr::Leaf(g("t")?, g("i")?),
            "auth" => Corr::Auth(g("t")?, g("i")?),
            "root" => Corr::Root(g("t")?),
            "roothigh" => Corr::RootHigh(g("t")?),
            "authhigh" => Corr::AuthHigh(g("t")?, g("i")?),
            "eval" => Corr::EvalPoint(g("t")?),
            "lastcoeff" => Corr::LastCoeff(g("i")?),
            "lastshort" => Corr::LastShort,
            "lastlong" => Corr::LastLong(v.get("zero")?.as_bool()?),
            "lastlen" => Corr::LastLen(g("n")?),
            "delleaf" => Corr::DeleteLeaf(g("t")?, g("i")?),
            "delauth" => Corr::DeleteAuth(g("t")?, g("i")?),
            "droplayer" => Corr::DropLayerWitness,
            "delpoint" => Corr::DeletePoint(g("i")?),
            "delvalue" => Corr::DeleteValue(g("i")?),
            "lastunchecked" => Corr::LastQueryUnchecked,
            _ => return None,
        })
    }
    pub fn apply(&self, inst: &mut Instance) {
        match self {
            Corr::Value(i) => inst.values[*i] += Felt::ONE,
            Corr::Leaf(t, i) => inst.leaves[*t][*i] += Felt::ONE,
            Corr::Auth(t, i) => inst.auths[*t][*i] += Felt::ONE,
            Corr::Root(t) => inst.roots[*t] += Felt::ONE,
            Corr::RootHigh(t) => inst.roots[*t] += Felt::TWO.pow(250u128),
            Corr::AuthHigh(t, i) => inst.auths[*t][*i] += Felt::TWO.pow(250u128),
            Corr::EvalPoint(t) => inst.eval_points[*t] += Felt::ONE,
            Corr::LastCoeff(i) => inst.last[*i] += Felt::ONE,
            Corr::LastShort => {
                inst.last.pop();
            }
            Corr::LastLong(zero) => inst.last.push(if *zero { Felt::ZERO } else { Felt::ONE }),
            Corr::LastLen(n) => inst.last.resize(*n, Felt::ZERO),
            Corr::DeleteLeaf(t, i) => {
                inst.leaves[*t].remove(*i);
            }
            Corr::DeleteAuth(t, i) => {
                inst.auths[*t].remove(*i);
            }
            Corr::DropLayerWitness => {
                inst.leaves.pop();
                inst.auths.pop();
            }
            Corr::DeletePoint(i) => {
                inst.points.remove(*i);
            }
            Corr::DeleteValue(i) => {
                inst.values.remove(*i);
            }
            Corr::LastQueryUnchecked => {
                let n = inst.values.len();
                let honest = inst.values[n - 1];
                inst.points.pop();
                inst.values[n - 1] += Felt::ONE;
                if let Some(l0) = inst.leaves.first_mut() {
                    l0.push(honest);
                }
            }
        }
    }
}

pub fn corruptions(inst: &Instance, dense: bool) -> Vec<Corr> {
    let mut out = Vec::new();
    // applicable when the queries fill whole cosets of the first layer (no sibling leaf there) and there are >= 2
    if inst.values.len() >= 2 && inst.leaves.first().map(|l| l.is_empty()).unwrap_or(false) {
        out.push(Corr::LastQueryUnchecked);
    }
    for i in 0..inst.values.len() {
        out.push(Corr::Value(i));
        out.push(Corr::DeletePoint(i));
        out.push(Corr::DeleteValue(i));
    }
    for t in 0..inst.leaves.len() {
        for i in 0..inst.leaves[t].len() {
            out.push(Corr::Leaf(t, i));
            out.push(Corr::DeleteLeaf(t, i));
        }
        for i in 0..inst.auths[t].len() {
            out.push(Corr::Auth(t, i));
            out.push(Corr::AuthHigh(t, i));
            out.push(Corr::DeleteAuth(t, i));
        }
        out.push(Corr::Root(t));
        out.push(Corr::RootHigh(t));
        if dense {
            // for the zero polynomial every fold is zero whatever the challenge: only
            // judged on dense polynomials
            out.push(Corr::EvalPoint(t));
        }
    }
    for i in 0..inst.last.len() {
        out.push(Corr::LastCoeff(i));
    }
    out.push(Corr::LastShort);
    out.push(Corr::LastLong(true));
    out.push(Corr::LastLong(false));
    // every length near and at multiples of the right one: only the length check can reject a
    // zero-padded last layer (the polynomial is unchanged)
    let l = inst.last.len();
    // ... and lengths that agree with the right one modulo 2^8 / 2^16 (a check done on a truncated integer)
    for n in [0, l / 2, l + 2, 2 * l, 3 * l, 4 * l, 5 * l, 6 * l, 3 * l / 2, l + 256, l + 65536, l + 2 * 65536] {
        if n != l {
            out.push(Corr::LastLen(n));
        }
    }
    out.push(Corr::DropLayerWitness);
    out
}

fn corr_key(_p: &Params, c: &Corr, _v: &Verdict) -> String {
    // one key per corruption kind: the call site is what matters (e.g. the discarded
    // result of table_decommit in fri_verify_layers for auth-node / layer-commitment)
    format!("fri_verify:accepts:{}", c.kind())
}

pub fn run(ctx: &Ctx) -> Report {
    let variant = Variant::of_build();
    let mut rep = Report::new(
        "C07",
        "exploration",
        "single-deviation sweep over honest FRI instances of C06's configuration space (every queried value, sibling leaf, \
         inner-layer authentication node, inner-layer commitment, evaluation point, last-layer coefficient +1; last layer one \
         coefficient short / long; one leaf / node deleted; a layer witness dropped) - each must not be accepted; degree census: \
         functions of degree D, D+1, 2D-1 honestly folded with the last layer truncated, and last layers agreeing with the honest \
         one on a chosen subset of points: fri_verify run for EVERY single query index (and every pair on domains <= 2^6) must \
         accept exactly the indices the model computes. Non-trivial: honest instance accepted / census instance; distinct by \
         (config, poly, query set, corruption) or (config, census instance, index set)",
    );
    rep.trust("Poseidon/Keccak/Blake2s primitives; Felt arithmetic inside the reference prover");
    rep.assume("collision resistance of table commitments; evaluation points are generic (seed-derived)");
    let quick = ctx.quick();
    // ---- corruption sweep
    let all = specs(ctx, quick);
    // deep instances: 12 and 15 layers (every inner layer must be authenticated, not only the first ten)
    let deep: Vec<Spec> = (if quick { vec![12usize] } else { vec![12usize, 15] })
        .iter()
        .map(|n| {
            let mut steps = vec![0u32];
            steps.extend(std::iter::repeat(1u32).take(n - 1));
            Spec { params: crate::refm::fri::Params { steps, last: 0, blowup: 1, n_friendly: 3 }, poly: 2, seed: 2 }
        })
        .collect();
    let mut sp: Vec<&Spec> = all
        .iter()
        .filter(|s| s.seed == 2 && (s.poly == 2 || (s.poly == 0 && s.params.n_friendly == 0)))
        .filter(|s| !quick || s.params.log_input_size() <= 6)
        .collect();
    sp.extend(deep.iter());
    let parts: Vec<Report> = sp
        .par_iter()
        .map(|s| {
            let mut r = Report::new("C07", "exploration", "");
            let (prover, bad) = commit_checked(ctx, variant, s, 0);
            if bad.is_some() {
                return r; // C06's finding
            }
            let mut qsets = query_sets(&s.params, 0, 0);
            if quick {
                qsets.truncate(if s.params.steps.len() >= 12 { 3 } else { 7 });
            }
            for qs in qsets {
                let honest = Instance::from(&prover, &prover.open(&qs));
                if !honest.verify().accepted() {
                    continue; // C06's finding
                }
                for c in corruptions(&honest, s.poly >= 2) {
                    let mut inst = honest.clone();
                    c.apply(&mut inst);
                    let v = inst.verify();
                    let class = format!("{}:{}", c.kind(), v.short());
                    r.eval(&class);
                    r.nontrivial_case(&format!("{}|{:?}|{:?}", spec_json(s, variant), qs, c));
                    r.sample(&class, json!({"spec": spec_json(s, variant), "queries": qs, "corruption": c.to_json(), "observed": v.class()}));
                    if v.accepted() {
                        r.violation(&corr_key(&s.params, &c, &v), &format!("corruption {:?} accepted ({}, queries {:?})", c, spec_json(s, variant), qs),
                            json!({"kind": "fri-corr", "spec": spec_json(s, variant), "queries": qs, "corruption": c.to_json()}));
                    }
                }
                // last layer of the wrong length through fri_commit: must not produce a commitment that verifies
                for (tag, delta) in [("short", -1i32), ("long", 1)] {
                    let mut last = honest.last.clone();
                    if delta < 0 {
                        last.pop();
                    } else {
                        last.push(Felt::ZERO);
                    }
                    let outcome = real_commit(&s.params, &honest.roots, &last, crate::props::c06::seed_digest(ctx, s.seed));
                    let class = format!("commit-last-{}:{}", tag, if outcome.is_ok() { "returns" } else { "panics" });
                    r.eval(&class);
                    if outcome.is_ok() {
                        let mut inst = honest.clone();
                        inst.last = last;
                        if inst.verify().accepted() {
                            r.violation(&format!("fri_commit+verify:accepts:last-layer-{}", tag), "a last layer of the wrong length passes fri_commit and fri_verify",
                                json!({"kind": "fri-corr", "spec": spec_json(s, variant), "queries": qs, "corruption": if delta < 0 { Corr::LastShort.to_json() } else { Corr::LastLong(true).to_json() }}));
                        }
                    }
                }
            }
            r
        })
        .collect();
    for p in parts {
        rep.merge(p);
    }
    // ---- degree census
    let census_specs: Vec<Spec> = {
        let mut v = Vec::new();
        let cfgs: Vec<(Vec<u32>, u32, u32)> = if quick {
            vec![(vec![0, 1], 1, 1), (vec![0, 2], 1, 2), (vec![0, 1, 2], 2, 1), (vec![0, 3], 0, 3), (vec![0, 2, 1], 1, 2)]
        } else {
            vec![(vec![0, 1], 1, 1), (vec![0, 2], 1, 2), (vec![0, 1, 2], 2, 1), (vec![0, 3], 0, 3), (vec![0, 2, 1], 1, 2), (vec![0, 4], 2, 2),
                 (vec![0, 2, 2], 3, 3), (vec![0, 1, 1, 1], 2, 2), (vec![0, 3, 2], 2, 3), (vec![0, 4, 2], 1, 3), (vec![0, 2, 3, 1], 1, 1)]
        };
        for (steps, last, blowup) in cfgs {
            for poly in [1usize, 2] {
                v.push(Spec { params: Params { steps: steps.clone(), last, blowup, n_friendly: 2 }, poly, seed: 2 });
            }
        }
        v
    };
    let cparts: Vec<Report> = census_specs
        .par_iter()
        .map(|s| {
            let mut r = Report::new("C07", "exploration", "");
            let d = 1usize << s.params.log_degree();
            let size = 1usize << s.params.log_input_size();
            // (a) above the degree bound, truncated last layer
            for (tag, extra) in [("D", 1usize), ("D+1", 2), ("2D-1", d)] {
                let (prover, _) = commit_checked(ctx, variant, s, extra);
                census(&mut r, &prover, &|q| prover.tail_vanishes_at(q), None, s, variant, &format!("degree={}", tag), size, extra);
            }
            // (b) low-degree input, last layer replaced by one that agrees with the honest one on a subset of points
            if s.params.last >= 1 {
                let (prover, _) = commit_checked(ctx, variant, s, 0);
                let ldom = domain(s.params.last + s.params.blowup);
                let nroots = (1usize << s.params.last) - 1;
                // G' = G + c * prod_{r in R}(y - y_r), R = the first nroots last-layer points at even positions
                let roots: Vec<Felt> = (0..nroots).map(|k| ldom[(2 * k) % ldom.len()]).collect();
                let mut delta = vec![fu(3)];
                for y in &roots {
                    let mut next = vec![Felt::ZERO; delta.len() + 1];
                    for (i, c) in delta.iter().enumerate() {
                        next[i + 1] += *c;
                        next[i] -= *c * *y;
                    }
                    delta = next;
                }
                let honest_last = prover.last_layer();
                let mut fake = honest_last.clone();
                for (i, c) in delta.iter().enumerate() {
                    fake[i] += *c;
                }
                let accept = |q: usize| {
                    let y = ldom[prover.last_index(q)];
                    horner(&fake, &y) == horner(&honest_last, &y)
                };
                census(&mut r, &prover, &accept, Some(fake.clone()), s, variant, "partial-agreement", size, 0);
            }
            r
        })
        .collect();
    for p in cparts {
        rep.merge(p);
    }
    rep.bound_completed = format!("{} honest instances x structural query family for the corruption sweep; {} census configurations (every single index, every pair for domains <= 2^6)", sp.len(), census_specs.len());
    rep.extra.insert("variant".into(), json!(variant.name()));
    rep
}

#[allow(clippy::too_many_arguments)]
fn census(r: &mut Report, prover: &Prover, model_accepts: &dyn Fn(usize) -> bool, last_override: Option<Vec<Felt>>, s: &Spec, variant: Variant, tag: &str, size: usize, extra: usize) {
    let mut accepted = 0usize;
    let mut acc_set = vec![false; size];
    for q in 0..size {
        let mut inst = Instance::from(prover, &prover.open(&[q]));
        if let Some(l) = &last_override {
            inst.last = l.clone();
        }
        let v = inst.verify();
        let want = model_accepts(q);
        acc_set[q] = v.accepted();
        if v.accepted() {
            accepted += 1;
        }
        r.eval(&format!("census:{}:{}", if want { "model-accepts" } else { "model-rejects" }, v.short()));
        if v.accepted() != want {
            r.violation(&format!("fri_verify:census:{}:{}", tag.split('=').next().unwrap_or(tag), if want { "rejects-consistent-query" } else { "accepts-inconsistent-query" }),
                &format!("{} {}: query {} -> {} but the model says {}", spec_json(s, variant), tag, q, v.class(), want),
                json!({"kind": "fri-census", "spec": spec_json(s, variant), "tag": tag, "extra": extra, "queries": [q]}));
        }
    }
    r.nontrivial_case(&format!("census|{}|{}", spec_json(s, variant), tag));
    r.sample(&format!("census:{}:{}", tag, accepted > 0), json!({"spec": spec_json(s, variant), "census": tag, "domain": size, "accepted_indices": accepted}));
    // queries are judged independently: acceptance(pair) = acceptance(i) and acceptance(j)
    if size <= 64 {
        for i in 0..size {
            for j in i + 1..size {
                let mut inst = Instance::from(prover, &prover.open(&[i, j]));
                if let Some(l) = &last_override {
                    inst.last = l.clone();
                }
                let v = inst.verify();
                let want = acc_set[i] && acc_set[j];
                r.eval(&format!("census-pair:{}", v.short()));
                if v.accepted() != want {
                    r.violation(&format!("fri_verify:census:{}:pair-not-independent", tag.split('=').next().unwrap_or(tag)),
                        &format!("{} {}: pair ({},{}) -> {} but singles give {}", spec_json(s, variant), tag, i, j, v.class(), want),
                        json!({"kind": "fri-census", "spec": spec_json(s, variant), "tag": tag, "extra": extra, "queries": [i, j]}));
                }
            }
        }
    }
}

pub fn replay(ctx: &Ctx, case: &Value) -> super::ReplayResult {
    let variant = Variant::of_build();
    let s = spec_from_json(&case["spec"]).ok_or("bad spec")?;
    let qs: Vec<usize> = case["queries"].as_array().ok_or("queries")?.iter().map(|x| x.as_u64().unwrap() as usize).collect();
    match case["kind"].as_str() {
        Some("fri-corr") => {
            let (prover, _) = commit_checked(ctx, variant, &s, 0);
            let mut inst = Instance::from(&prover, &prover.open(&qs));
            let honest = inst.verify();
            let c = Corr::from_json(&case["corruption"]).ok_or("corruption")?;
            c.apply(&mut inst);
            let v = inst.verify();
            Ok((honest.accepted() && v.accepted(), format!("honest -> {}, corrupted ({:?}) -> {}", honest.class(), c, v.class())))
        }
        Some("fri-census") => {
            let extra = case["extra"].as_u64().unwrap_or(0) as usize;
            if case["tag"].as_str() == Some("partial-agreement") {
                return Err("partial-agreement census cases are replayed by re-running the check (the fake last layer is derived, not stored)".into());
            }
            let (prover, _) = commit_checked(ctx, variant, &s, extra);
            let inst = Instance::from(&prover, &prover.open(&qs));
            let v = inst.verify();
            let want = qs.iter().all(|&q| prover.tail_vanishes_at(q));
            Ok((v.accepted() != want, format!("model accepts={} observed={}", want, v.class())))
        }
        _ => Err("unknown replay kind".into()),
    }
}
