//! C11 - config validation accepts exactly consistent, sufficiently secure configs.
//! Deviation-bounded sweep around valid configurations against the integer predicate.
use crate::kit::{b2f, f2b, fhex, fu, jsonwalk as jw, p_minus, panics::{verdict, Verdict}, pow2, prime, report::Report, Ctx};
use crate::refm::cfgpred::{judge, Judgement};
use num_bigint::BigUint;
use rayon::prelude::*;
use serde_json::{json, Value};
use starknet_crypto::Felt;
use swiftness_commitment::{table::config::Config as TableConfig, vector::config::Config as VecConfig};
use swiftness_stark::config::StarkConfig;

#[derive(Clone, Debug)]
pub struct Base {
    pub name: String,
    pub cfg: Value,
    pub security: BigUint,
    pub cols: (u64, u64),
}

impl Base {
    /// n_queries * log_n_cosets of the base configuration (integers)
    pub fn queries_security(&self) -> BigUint {
        let g = |k: &str| self.cfg.get(k).and_then(|v| v.as_str()).and_then(|h| Felt::from_hex(h).ok()).map(|f| crate::kit::f2b(&f)).unwrap_or_default();
        g("n_queries") * g("log_n_cosets")
    }
}

fn tcfg(cols: Felt, height: Felt, nf: Felt) -> TableConfig {
    TableConfig { n_columns: cols, vector: VecConfig { height, n_verifier_friendly_commitment_layers: nf } }
}

/// An honest configuration for the given shape; all arithmetic modulo p on purpose (so
/// that "consistent re-declarations" with field-wrapped values can be built with it too).
#[allow(clippy::too_many_arguments)]
pub fn make(lt: Felt, lc: Felt, steps: &[u64], last: Felt, nq: Felt, pow: u8, nf: Felt, cols: (u64, u64), lis_override: Option<Felt>) -> StarkConfig {
    let fs: Vec<Felt> = steps.iter().map(|&s| fu(s)).collect();
    make_felt(lt, lc, &fs, last, nq, pow, nf, cols, lis_override)
}

/// As `make`, with the FRI steps given as field elements: the column count of a layer is
/// 2^(step mod 2^64 mod 64) (what a careless reader of the low limb would compute), every
/// height is derived from the full elements.
#[allow(clippy::too_many_arguments)]
pub fn make_felt(lt: Felt, lc: Felt, steps: &[Felt], last: Felt, nq: Felt, pow: u8, nf: Felt, cols: (u64, u64), lis_override: Option<Felt>) -> StarkConfig {
    let eval = lt + lc;
    let sum: Felt = steps.iter().fold(Felt::ZERO, |a, b| a + *b);
    let lis = lis_override.unwrap_or(sum + last + lc);
    let mut inner = Vec::new();
    let mut acc = Felt::ZERO;
    for s in &steps[1..] {
        acc += *s;
        let low = s.to_le_digits()[0] % 64;
        inner.push(tcfg(fu(1u64 << low), lis - acc, nf));
    }
    StarkConfig {
        traces: swiftness_air::trace::config::Config { original: tcfg(fu(cols.0), eval, nf), interaction: tcfg(fu(cols.1), eval, nf) },
        composition: tcfg(fu(2), eval, nf),
        fri: swiftness_fri::config::Config {
            log_input_size: lis,
            n_layers: fu(steps.len() as u64),
            inner_layers: inner,
            fri_step_sizes: steps.to_vec(),
            log_last_layer_degree_bound: last,
        },
        proof_of_work: swiftness_pow::config::Config { n_bits: pow },
        log_trace_domain_size: lt,
        n_queries: nq,
        log_n_cosets: lc,
        n_verifier_friendly_commitment_layers: nf,
    }
}

pub fn to_value(c: &StarkConfig) -> Value {
    serde_json::to_value(c).expect("StarkConfig serialises")
}
pub fn from_value(v: &Value) -> Option<StarkConfig> {
    serde_json::from_value(v.clone()).ok()
}

const LAYOUT_COLS: [(&str, (u64, u64)); 6] =
    [("dex", (21, 1)), ("recursive", (7, 3)), ("recursive_with_poseidon", (6, 2)), ("small", (23, 2)), ("starknet", (9, 1)), ("starknet_with_keccak", (12, 3))];

pub fn synthetic_bases(quick: bool) -> Vec<Base> {
    let mut out = Vec::new();
    let mut push = |name: String, steps: Vec<u64>, last: u64, lc: u64, nq: u64, pow: u8, nf: u64, cols: (u64, u64)| {
        let sum: u64 = steps.iter().sum();
        let lt = sum + last;
        let c = make(fu(lt), fu(lc), &steps, fu(last), fu(nq), pow, fu(nf), cols, None);
        out.push(Base { name, cfg: to_value(&c), security: BigUint::from(nq * lc + pow as u64), cols });
    };
    // every layer count 2..=15 with minimal and maximal steps
    for l in 2..=15usize {
        if quick && ![2, 3, 7, 15].contains(&l) {
            continue;
        }
        for (tag, s) in [("min", 1u64), ("max", 4u64)] {
            let mut steps = vec![0u64];
            steps.extend(std::iter::repeat(s).take(l - 1));
            push(format!("L{}-{}", l, tag), steps, 0, 1, 1, 20, 0, (7, 3));
        }
    }
    // boundary corners of the other numbers
    push("corner-hi".into(), vec![0, 4, 3, 2, 1], 15, 16, 48, 50, 100, (7, 3));
    push("corner-lo".into(), vec![0, 1], 0, 1, 1, 20, 0, (1, 1));
    push("mixed".into(), vec![0, 3, 3, 2], 6, 4, 10, 30, 9, (7, 3));
    push("cols-max".into(), vec![0, 2, 2], 5, 2, 18, 30, 1000, (128, 128));
    for (name, cols) in LAYOUT_COLS {
        if quick && name != "dex" && name != "small" {
            continue;
        }
        push(format!("layout-{}", name), vec![0, 4, 4, 3], 7, 2, 16, 32, 22, cols);
    }
    out
}

fn felt_menu(v: &Felt) -> Vec<Felt> {
    let mut m = vec![
        Felt::ZERO, Felt::ONE, Felt::TWO, *v - Felt::ONE, *v + Felt::ONE, fu(4), fu(5), fu(15), fu(16), fu(17), fu(48), fu(49),
        fu(1 << 16), fu(1 << 40), b2f(&pow2(64)), b2f(&pow2(128)), p_minus(1), p_minus(2),
    ];
    m.retain(|x| x != v);
    m.sort();
    m.dedup();
    m
}
fn felt_menu_small(v: &Felt) -> Vec<Felt> {
    let mut m = vec![*v - Felt::ONE, *v + Felt::ONE, p_minus(1), p_minus(2), b2f(&pow2(64))];
    m.retain(|x| x != v);
    m
}
fn u8_menu(v: u64) -> Vec<u64> {
    let mut m = vec![0, 1, 19, 20, 21, 49, 50, 51, 128, 255, v.saturating_sub(1), (v + 1).min(255)];
    m.retain(|x| *x != v);
    m.sort();
    m.dedup();
    m
}

/// One deviation applied to a JSON config.
#[derive(Clone, Debug)]
pub enum Dev {
    Set(String, Value),
    VecPop(String),
    VecDup(String),
    VecClear(String),
}
impl Dev {
    fn apply(&self, v: &mut Value) {
        match self {
            Dev::Set(p, x) => jw::set(v, &jw::parse_path(p), x.clone()),
            Dev::VecPop(p) => {
                jw::get_mut(v, &jw::parse_path(p)).unwrap().as_array_mut().unwrap().pop();
            }
            Dev::VecDup(p) => {
                let a = jw::get_mut(v, &jw::parse_path(p)).unwrap().as_array_mut().unwrap();
                if let Some(l) = a.last().cloned() {
                    a.push(l);
                }
            }
            Dev::VecClear(p) => jw::get_mut(v, &jw::parse_path(p)).unwrap().as_array_mut().unwrap().clear(),
        }
    }
    fn to_json(&self) -> Value {
        match self {
            Dev::Set(p, x) => json!({"op": "set", "path": p, "value": x}),
            Dev::VecPop(p) => json!({"op": "pop", "path": p}),
            Dev::VecDup(p) => json!({"op": "dup", "path": p}),
            Dev::VecClear(p) => json!({"op": "clear", "path": p}),
        }
    }
    fn from_json(v: &Value) -> Option<Dev> {
        let p = v.get("path")?.as_str()?.to_string();
        Some(match v.get("op")?.as_str()? {
            "set" => Dev::Set(p, v.get("value")?.clone()),
            "pop" => Dev::VecPop(p),
            "dup" => Dev::VecDup(p),
            "clear" => Dev::VecClear(p),
            _ => return None,
        })
    }
    fn class(&self) -> String {
        match self {
            Dev::Set(p, _) => jw::path_class(&jw::parse_path(p)),
            Dev::VecPop(p) => format!("{}:pop", jw::path_class(&jw::parse_path(p))),
            Dev::VecDup(p) => format!("{}:dup", jw::path_class(&jw::parse_path(p))),
            Dev::VecClear(p) => format!("{}:clear", jw::path_class(&jw::parse_path(p))),
        }
    }
}

pub fn single_devs(cfg: &Value, small: bool) -> Vec<Dev> {
    let mut out = Vec::new();
    // field fractions: values whose PRODUCT with another number of the configuration is small modulo p
    // (1/2, 1/3, 1/4, k / blow-up exponent, k / query count) - huge as integers
    let num = |k: &str| cfg.get(k).and_then(|v| v.as_str()).and_then(|h| Felt::from_hex(h).ok()).and_then(|f| f.inverse());
    let mut fractions: Vec<Felt> = [2u64, 3, 4].iter().filter_map(|k| fu(*k).inverse()).collect();
    // ... and exponents moved by the multiplicative order of 2 (2^(e + ord) = 2^e in the field)
    let ord2 = b2f(&crate::refm::zint::order_of_two());
    for k in ["log_trace_domain_size", "log_n_cosets"] {
        if let Some(f) = cfg.get(k).and_then(|v| v.as_str()).and_then(|h| Felt::from_hex(h).ok()) {
            fractions.push(f + ord2);
        }
    }
    fractions.push(ord2);
    for inv in [num("log_n_cosets"), num("n_queries")].into_iter().flatten() {
        fractions.push(inv);
        fractions.push(inv * fu(20));
        fractions.push(inv * fu(48));
    }
    for leaf in jw::leaves(cfg) {
        let ps = jw::path_str(&leaf);
        match jw::get(cfg, &leaf).unwrap() {
            Value::String(s) => {
                let v = Felt::from_hex(s).expect("felt leaf");
                let mut menu = if small { felt_menu_small(&v) } else { felt_menu(&v) };
                if !small {
                    menu.extend(fractions.iter().filter(|f| **f != v).cloned());
                }
                for m in menu {
                    out.push(Dev::Set(ps.clone(), Value::String(fhex(&m))));
                }
            }
            Value::Number(n) => {
                let cur = n.as_u64().unwrap();
                let menu = if small { vec![cur.saturating_sub(1), (cur + 1).min(255)] } else { u8_menu(cur) };
                for m in menu {
                    if m != cur {
                        out.push(Dev::Set(ps.clone(), json!(m)));
                    }
                }
            }
            _ => {}
        }
    }
    if !small {
        for arr in jw::arrays(cfg) {
            let ps = jw::path_str(&arr);
            out.push(Dev::VecPop(ps.clone()));
            out.push(Dev::VecDup(ps.clone()));
            out.push(Dev::VecClear(ps));
        }
    }
    out
}

/// Consistent re-declarations: a primary field is set to a menu value and every field
/// validation ties to it is recomputed modulo p.
pub fn redeclarations(b: &Base) -> Vec<(String, Value)> {
    let c = from_value(&b.cfg).unwrap();
    let steps: Vec<u64> = c.fri.fri_step_sizes.iter().map(|s| f2b(s).try_into().unwrap()).collect();
    let (lt, lc, last, nq, pow, nf) =
        (c.log_trace_domain_size, c.log_n_cosets, c.fri.log_last_layer_degree_bound, c.n_queries, c.proof_of_work.n_bits, c.n_verifier_friendly_commitment_layers);
    let mut out = Vec::new();
    let mut add = |name: String, cfg: StarkConfig| out.push((name, to_value(&cfg)));
    // blow-up exponent re-declared with all heights following (modular)
    for (tag, v) in [("0", Felt::ZERO), ("17", fu(17)), ("p-1", p_minus(1)), ("p-2", p_minus(2)), ("2", fu(2)), ("16", fu(16)), ("2^64", b2f(&pow2(64)))] {
        add(format!("log_n_cosets={}", tag), make(lt, v, &steps, last, nq, pow, nf, b.cols, None));
    }
    // friendly-layer count re-declared everywhere (stays valid)
    for (tag, v) in [("0", Felt::ZERO), ("1", Felt::ONE), ("2^64", b2f(&pow2(64))), ("p-1", p_minus(1))] {
        add(format!("n_friendly={}", tag), make(lt, lc, &steps, last, nq, pow, v, b.cols, None));
    }
    // trace exponent moved, tables follow, FRI left as it was (input size no longer the evaluation domain)
    for (tag, v) in [("+1", lt + Felt::ONE), ("-1", lt - Felt::ONE), ("+8", lt + fu(8)), ("0", Felt::ZERO), ("p-1", p_minus(1))] {
        let sum: u64 = steps.iter().sum();
        add(format!("log_trace{}-fri-unchanged", tag), make(v, lc, &steps, last, nq, pow, nf, b.cols, Some(fu(sum) + last + lc)));
    }
    // blow-up exponent re-declared with the tables following, FRI left as it was (the FRI input is no longer the
    // evaluation domain; only the FRI description's own check can see it)
    for (tag, v) in [("+1", lc + Felt::ONE), ("-1", lc - Felt::ONE), ("3", fu(3)), ("16", fu(16))] {
        if v != lc {
            let sum: u64 = steps.iter().sum();
            add(format!("log_n_cosets{}-fri-unchanged", tag), make(lt, v, &steps, last, nq, pow, nf, b.cols, Some(fu(sum) + last + lc)));
        }
    }
    // FRI input size re-declared with inner heights following, tables unchanged
    for (tag, d) in [("+1", Felt::ONE), ("+2", Felt::TWO), ("-1", Felt::ZERO - Felt::ONE)] {
        let sum: u64 = steps.iter().sum();
        add(format!("fri_log_input_size{}", tag), make(lt, lc, &steps, last, nq, pow, nf, b.cols, Some(fu(sum) + last + lc + d)));
    }
    // last-layer bound moved, trace exponent follows (stays valid while <= 15)
    for (tag, v) in [("0", 0u64), ("15", 15), ("16", 16)] {
        let sum: u64 = steps.iter().sum();
        add(format!("last_layer={}", tag), make(fu(sum + v), lc, &steps, fu(v), nq, pow, nf, b.cols, None));
    }
    // one FRI step re-declared with EVERY dependent number following (inner heights, FRI input size,
    // trace exponent, table heights): consistent over the integers, only the step range is violated
    let fsteps: Vec<Felt> = c.fri.fri_step_sizes.clone();
    for i in 1..fsteps.len() {
        for (tag, v) in [("0", Felt::ZERO), ("5", fu(5)), ("+2^64", fsteps[i] + b2f(&pow2(64))), ("+2^128", fsteps[i] + b2f(&pow2(128))), ("+2^250", fsteps[i] + b2f(&pow2(250))), ("p-1", p_minus(1))] {
            let mut st = fsteps.clone();
            st[i] = v;
            let sum: Felt = st.iter().fold(Felt::ZERO, |a, b| a + *b);
            add(format!("fri_step[{}]={}-all-following", i, tag), make_felt(sum + last, lc, &st, last, nq, pow, nf, b.cols, None));
        }
    }
    // layer count re-declared with every vector following: 16 layers (steps of 1) and a single layer
    {
        let mut st = vec![Felt::ZERO];
        st.extend(std::iter::repeat(Felt::ONE).take(15));
        add("n_layers=16-all-following".to_string(), make_felt(fu(15) + last, lc, &st, last, nq, pow, nf, b.cols, None));
        add("n_layers=1-all-following".to_string(), make_felt(last, lc, &[Felt::ZERO], last, nq, pow, nf, b.cols, None));
    }
    let mut raw: Vec<(String, Value)> = Vec::new();
    // fewer step sizes / inner-layer descriptions than the declared layer count, the last-layer bound raised by the
    // dropped steps so that every sum still agrees (the unpaired trailing entries must not go unchecked)
    {
        let n = steps.len();
        for k in 1..n.saturating_sub(1).min(3) + 1 {
            if n < k + 2 {
                continue;
            }
            let dropped: u64 = steps[n - k..].iter().sum();
            let honest = make(lt, lc, &steps, last, nq, pow, nf, b.cols, None);
            // (a) steps and inner layers both shortened, n_layers kept, last-layer bound raised
            let mut c1 = to_value(&honest);
            for _ in 0..k {
                c1["fri"]["fri_step_sizes"].as_array_mut().unwrap().pop();
                c1["fri"]["inner_layers"].as_array_mut().unwrap().pop();
            }
            c1["fri"]["log_last_layer_degree_bound"] = Value::String(fhex(&(last + fu(dropped))));
            raw.push((format!("fri-vectors-short-by-{}-last-raised", k), c1.clone()));
            // (b) only the inner layers shortened
            let mut c2 = to_value(&honest);
            for _ in 0..k {
                c2["fri"]["inner_layers"].as_array_mut().unwrap().pop();
            }
            c2["fri"]["log_last_layer_degree_bound"] = Value::String(fhex(&(last + fu(dropped))));
            raw.push((format!("fri-inner-layers-short-by-{}-last-raised", k), c2));
            // (c) only the steps shortened
            let mut c3 = to_value(&honest);
            for _ in 0..k {
                c3["fri"]["fri_step_sizes"].as_array_mut().unwrap().pop();
            }
            c3["fri"]["log_last_layer_degree_bound"] = Value::String(fhex(&(last + fu(dropped))));
            raw.push((format!("fri-steps-short-by-{}-last-raised", k), c3));
        }
    }
    // a query count and a blow-up exponent whose PRODUCT is small modulo p (each huge as an integer)
    for k in [16u32, 40, 64] {
        let n = pow2(k);
        let lc_big = (crate::kit::prime() + &n - BigUint::from(1u32)) / &n; // ceil(p / 2^k)
        add(format!("n_queries=2^{}-with-log_n_cosets=ceil(p/2^{})", k, k), make(lt, b2f(&lc_big), &steps, last, b2f(&n), pow, nf, b.cols, None));
    }
    // columns moved between the two traces: the total is unchanged, the boundary between what is committed
    // before and after the interaction challenges is not
    {
        let (c1, c2) = b.cols;
        for (tag, cols) in [("one-to-second", (c1.saturating_sub(1), c2 + 1)), ("one-to-first", (c1 + 1, c2.saturating_sub(1))), ("all-but-one-to-second", (1, c1 + c2 - 1)), ("all-to-first", (c1 + c2, 0))] {
            if cols != b.cols {
                add(format!("trace-columns={}", tag), make(lt, lc, &steps, last, nq, pow, nf, cols, None));
            }
        }
    }
    // query count / pow at the bounds
    for (tag, v) in [("0", Felt::ZERO), ("1", Felt::ONE), ("48", fu(48)), ("49", fu(49)), ("2^40", fu(1 << 40)), ("p-1", p_minus(1))] {
        add(format!("n_queries={}", tag), make(lt, lc, &steps, last, v, pow, nf, b.cols, None));
    }
    out.extend(raw);
    out
}

fn security_menu(b: &Base) -> Vec<(String, Felt)> {
    vec![
        ("exact".into(), b2f(&b.security)),
        ("plus1".into(), b2f(&(&b.security + 1u32))),
        ("zero".into(), Felt::ZERO),
        ("p-1".into(), p_minus(1)),
        // what the queries alone provide: the proof-of-work term is not needed to reach it
        ("queries-only".into(), b2f(&b.queries_security())),
    ]
}

pub fn run_case(cfg: &Value, security: &Felt, cols: (u64, u64)) -> Option<(Judgement, Verdict)> {
    let c = from_value(cfg)?;
    let j = judge(&c, &f2b(security), &BigUint::from(cols.0), &BigUint::from(cols.1));
    let s = *security;
    let v = verdict(move || c.validate(s, fu(cols.0), fu(cols.1)));
    Some((j, v))
}

fn violation_key(devclass: &str, j: &Judgement, v: &Verdict) -> String {
    match (j, v.accepted()) {
        (Judgement::Reject(why), true) => format!("validate-accepts:{}", why),
        (Judgement::Accept, false) => format!("validate-rejects-valid:{}:{}", devclass, v.short()),
        _ => String::new(),
    }
}

fn record(rep: &mut Report, base: &str, desc: &str, devclass: &str, sec_tag: &str, cfg: &Value, security: &Felt, cols: (u64, u64), replay: Value, ndev: usize) {
    match run_case(cfg, security, cols) {
        None => rep.eval("untypable"),
        Some((j, v)) => {
            let jc = match &j {
                Judgement::Accept => "valid",
                Judgement::Reject(_) => "invalid",
                Judgement::Unjudged(_) => "unjudged",
            };
            let class = format!("{}:{}", jc, v.short());
            rep.eval(&class);
            if ndev > 0 || sec_tag != "exact" {
                rep.nontrivial_case(&format!("{}|{}|{}", base, desc, sec_tag));
            }
            rep.sample(&format!("{}:{}", class, ndev), json!({"base": base, "deviation": desc, "security": sec_tag, "predicate": format!("{:?}", j), "validate": v.class()}));
            let key = violation_key(devclass, &j, &v);
            if !key.is_empty() {
                rep.violation(&key, &format!("base {} with {} (security {}): predicate {:?}, validate -> {}", base, desc, sec_tag, j, v.class()), replay);
            }
        }
    }
}

/// "Trace column counts equal the LAYOUT's": the counts `StarkProof::verify` hands to validation come from
/// `get_num_columns_first/second(public_input)`; for the six static layouts they must be the layout's constants
/// whatever the public input carries (in particular a `dynamic_params` block declaring other counts).
#[cfg(feature = "full")]
fn layout_column_sources(ctx: &Ctx, rep: &mut Report) {
    use crate::refm::stonefile;
    use swiftness_air::layout::GenericLayoutTrait;
    let corpus = stonefile::corpus(ctx);
    let dynp = corpus.iter().find(|p| p.loaded.meta.layout == "dynamic").and_then(|p| p.loaded.proof.public_input.dynamic_params.clone());
    for layout in stonefile::LAYOUTS.iter().filter(|l| **l != "dynamic") {
        let (c1, c2, _) = match stonefile::layout_consts(layout) {
            Some(x) => x,
            None => continue,
        };
        let pf = match corpus.iter().find(|p| p.loaded.meta.layout == *layout) {
            Some(p) => p,
            None => continue,
        };
        let base = serde_json::to_value(&pf.loaded.proof.public_input).unwrap();
        let mut variants: Vec<(String, Value)> = vec![("as shipped".into(), base.clone())];
        if let Some(d) = &dynp {
            let mut dv = serde_json::to_value(d).unwrap();
            let mut v = base.clone();
            v["dynamic_params"] = dv.clone();
            variants.push(("with the dynamic proof's parameter block".into(), v));
            dv["num_columns_first"] = json!(c1 + 1);
            dv["num_columns_second"] = json!(c2 + 2);
            let mut v = base.clone();
            v["dynamic_params"] = dv;
            variants.push(("with a parameter block declaring other column counts".into(), v));
        }
        for (tag, v) in variants {
            let pi: swiftness_air::public_memory::PublicInput = match serde_json::from_value(v) {
                Ok(p) => p,
                Err(_) => continue,
            };
            let got = crate::with_layout!(*layout, L, (L::get_num_columns_first(&pi), L::get_num_columns_second(&pi)));
            let ok = got == (Some(c1 as usize), Some(c2 as usize));
            rep.eval(if ok { "layout-columns:constants" } else { "layout-columns:FOLLOW-THE-PROOF" });
            rep.nontrivial_case(&format!("layoutcols|{}|{}", layout, tag));
            if !ok {
                rep.violation(&format!("validate-accepts:trace column counts taken from the proof:{}", layout),
                    &format!("layout {} ({}): the column counts handed to validation are {:?}, the layout has ({}, {})", layout, tag, got, c1, c2),
                    json!({"kind": "layoutcols", "layout": layout}));
            }
        }
    }
}

pub fn bases(ctx: &Ctx) -> Vec<Base> {
    #[allow(unused_mut)]
    let mut b = synthetic_bases(ctx.quick());
    #[cfg(feature = "full")]
    b.extend(crate::props::common::honest_config_bases(ctx));
    b
}

pub fn run(ctx: &Ctx) -> Report {
    let mut rep = Report::new(
        "C11",
        "exploration",
        "valid base configurations (synthetic family over every FRI layer count / bound corners / layout column counts, plus \
         the honest proofs' configurations) x {0, 1, 2(thorough)} deviations (every numeric field x boundary menu, every vector \
         one short / one long / empty, consistent re-declarations modulo p) x security level {exact, +1, 0, p-1, queries * blow-up exponent alone}; verdict of \
         StarkConfig::validate compared with an integer predicate; non-trivial = at least one deviation or a non-default \
         security level; distinct by (base, deviation(s), security)",
    );
    rep.trust("serde_json round trip of StarkConfig (checked: every base re-typed from JSON validates)");
    #[cfg(feature = "full")]
    layout_column_sources(ctx, &mut rep);
    let bs = bases(ctx);
    let thorough = !ctx.quick();
    let parts: Vec<Report> = bs
        .par_iter()
        .map(|b| {
            let mut r = Report::new("C11", "exploration", "");
            let secs = security_menu(b);
            // 0 deviations
            for (st, s) in &secs {
                record(&mut r, &b.name, "none", "none", st, &b.cfg, s, b.cols,
                    json!({"kind": "cfg", "cfg": b.cfg, "security": fhex(s), "cols": [b.cols.0, b.cols.1]}), 0);
            }
            // caller's column counts off by one
            for (dc, cols) in [("cols_first+1", (b.cols.0 + 1, b.cols.1)), ("cols_second+1", (b.cols.0, b.cols.1 + 1))] {
                record(&mut r, &b.name, dc, dc, "exact", &b.cfg, &secs[0].1, cols,
                    json!({"kind": "cfg", "cfg": b.cfg, "security": fhex(&secs[0].1), "cols": [cols.0, cols.1]}), 1);
            }
            // 1 deviation
            let devs = single_devs(&b.cfg, false);
            for d in &devs {
                let mut c = b.cfg.clone();
                d.apply(&mut c);
                for (st, s) in [&secs[0], &secs[1], &secs[2], &secs[4]] {
                    record(&mut r, &b.name, &format!("{:?}", d), &d.class(), st, &c, s, b.cols,
                        json!({"kind": "cfg", "cfg": c, "security": fhex(s), "cols": [b.cols.0, b.cols.1], "dev": [d.to_json()]}), 1);
                }
            }
            // consistent re-declarations (each counts as one deviation)
            for (name, c) in redeclarations(b) {
                // security level recomputed on integers where the numbers are in range, else the base's
                for (st, s) in [&secs[0], &secs[1], &secs[2], &secs[4]] {
                    record(&mut r, &b.name, &format!("redeclare {}", name), &format!("redeclare:{}", name.split('=').next().unwrap_or("")), st, &c, s, b.cols,
                        json!({"kind": "cfg", "cfg": c, "security": fhex(s), "cols": [b.cols.0, b.cols.1]}), 1);
                }
            }
            // histories of length two: the accepted base is validated immediately before the case, on the same thread
            // (a verdict must not depend on what was validated before; the predicate is the oracle, as above)
            {
                let mut hist: Vec<(String, String, Value)> = redeclarations(b).into_iter().map(|(n, c)| (format!("redeclare {}", n), format!("redeclare:{}", n.split('=').next().unwrap_or("")), c)).collect();
                for d in &devs {
                    let mut c = b.cfg.clone();
                    d.apply(&mut c);
                    hist.push((format!("{:?}", d), d.class(), c));
                }
                for (desc, class, c) in hist {
                    let _ = run_case(&b.cfg, &secs[0].1, b.cols);
                    record(&mut r, &b.name, &format!("after-base: {}", desc), &format!("after-base:{}", class), "exact", &c, &secs[0].1, b.cols,
                        json!({"kind": "cfg", "cfg": c, "security": fhex(&secs[0].1), "cols": [b.cols.0, b.cols.1], "after": b.cfg}), 1);
                }
            }
            // 2 deviations (thorough): all pairs over the restricted menu
            if thorough {
                let small = single_devs(&b.cfg, true);
                for i in 0..small.len() {
                    for j in i + 1..small.len() {
                        if let (Dev::Set(p1, _), Dev::Set(p2, _)) = (&small[i], &small[j]) {
                            if p1 == p2 {
                                continue;
                            }
                        }
                        let mut c = b.cfg.clone();
                        small[i].apply(&mut c);
                        small[j].apply(&mut c);
                        record(&mut r, &b.name, &format!("{:?}+{:?}", small[i], small[j]), &format!("{}+{}", small[i].class(), small[j].class()),
                            "exact", &c, &secs[0].1, b.cols,
                            json!({"kind": "cfg", "cfg": c, "security": fhex(&secs[0].1), "cols": [b.cols.0, b.cols.1]}), 2);
                    }
                }
            }
            r
        })
        .collect();
    for p in parts {
        rep.merge(p);
    }
    rep.extra.insert("bases".into(), json!(bs.iter().map(|b| b.name.clone()).collect::<Vec<_>>()));
    rep.bound_completed = format!("{} bases; deviations <= {}", bs.len(), if thorough { 2 } else { 1 });
    let _ = prime();
    rep
}

pub fn replay(_ctx: &Ctx, case: &Value) -> super::ReplayResult {
    #[cfg(feature = "full")]
    if case["kind"] == "layoutcols" {
        let mut rep = Report::new("C11", "exploration", "");
        layout_column_sources(_ctx, &mut rep);
        return Ok((!rep.violations.is_empty(), format!("{:?}", rep.violations.keys().collect::<Vec<_>>())));
    }
    let cfg = case.get("cfg").ok_or("cfg")?;
    let sec = Felt::from_hex(case["security"].as_str().ok_or("security")?).map_err(|e| e.to_string())?;
    let cols = (case["cols"][0].as_u64().ok_or("cols")?, case["cols"][1].as_u64().ok_or("cols")?);
    let _ = Dev::from_json;
    if let Some(before) = case.get("after") {
        let _ = run_case(before, &sec, cols);
    }
    match run_case(cfg, &sec, cols) {
        None => Err("configuration does not type".into()),
        Some((j, v)) => Ok((!violation_key("replay", &j, &v).is_empty(), format!("predicate={:?} validate={}", j, v.class()))),
    }
}
