//! C18 - malformed proofs are reported as errors, not crashes.
//! Deviation-bounded structural sweep under catch_unwind: every vector truncated / emptied
//! / shifted / extended, every numeric field at extreme values.
use crate::kit::{b2f, build_name, fhex, fu, jsonwalk as jw, p_minus, panics::{verdict, Verdict}, pow2, report::Report, Ctx};
use crate::props::c02::{bases, Base};
use crate::props::common::{own_security, proof_from_value, verify};
use crate::with_layout;
use rayon::prelude::*;
use serde_json::{json, Value};
use starknet_crypto::Felt;
use swiftness_air::{domains::StarkDomains, layout::{GenericLayoutTrait, LayoutTrait}};
use swiftness_stark::types::StarkProof;

#[derive(Clone, Debug)]
pub enum Dev {
    Pop(String),
    Clear(String),
    Shift(String),
    Append(String),
    /// the vector replaced by k copies of itself (lengths that are odd / even multiples of the right one)
    Repeat(String, usize),
    Set(String, Value),
    DropDynamic,
    /// a continuous page header appended to the public input: (size, prod) as hex
    AddPageHeader(String, String),
    /// the composition table re-declared as ONE column whose cells are the hashes of the honest rows: the
    /// Merkle openings still hold (a one-column row is its own leaf), the number of cells per query does not
    CompositionPrehashed,
}
impl Dev {
    pub fn apply(&self, v: &mut Value) -> bool {
        match self {
            Dev::Pop(p) | Dev::Clear(p) | Dev::Shift(p) | Dev::Append(p) => {
                let a = match jw::get_mut(v, &jw::parse_path(p)).and_then(|x| x.as_array_mut()) {
                    Some(a) => a,
                    None => return false,
                };
                match self {
                    Dev::Pop(_) => a.pop().is_some(),
                    Dev::Clear(_) => {
                        let had = !a.is_empty();
                        a.clear();
                        had
                    }
                    Dev::Shift(_) => {
                        if a.is_empty() {
                            false
                        } else {
                            a.remove(0);
                            true
                        }
                    }
                    _ => match a.last().cloned() {
                        Some(l) => {
                            a.push(l);
                            true
                        }
                        None => false,
                    },
                }
            }
            Dev::Repeat(p, k) => match jw::get_mut(v, &jw::parse_path(p)).and_then(|x| x.as_array_mut()) {
                Some(a) if !a.is_empty() => {
                    let orig = a.clone();
                    for _ in 1..*k {
                        a.extend(orig.iter().cloned());
                    }
                    true
                }
                _ => false,
            },
            Dev::Set(p, x) => match jw::get_mut(v, &jw::parse_path(p)) {
                Some(slot) if slot != x => {
                    *slot = x.clone();
                    true
                }
                _ => false,
            },
            Dev::DropDynamic => v.get_mut("public_input").and_then(|p| p.as_object_mut()).map(|o| o.remove("dynamic_params").is_some()).unwrap_or(false),
            Dev::AddPageHeader(size, prod) => match v["public_input"]["continuous_page_headers"].as_array_mut() {
                Some(a) => {
                    a.push(json!({"start_address": "0x100000", "size": size, "hash": "0x1234", "prod": prod}));
                    true
                }
                None => false,
            },
            Dev::CompositionPrehashed => {
                let height = match v["config"]["composition"]["vector"]["height"].as_str().and_then(|h| Felt::from_hex(h).ok()) {
                    Some(h) => crate::kit::f2b(&h).to_u64_digits().first().cloned().unwrap_or(0) as u32,
                    None => return false,
                };
                let nf = match v["config"]["composition"]["vector"]["n_verifier_friendly_commitment_layers"].as_str().and_then(|h| Felt::from_hex(h).ok()) {
                    Some(h) => crate::kit::f2b(&h).to_u64_digits().first().cloned().unwrap_or(0),
                    None => return false,
                };
                let vals: Vec<Felt> = match v["witness"]["composition_decommitment"]["values"].as_array() {
                    Some(a) => a.iter().filter_map(|x| x.as_str().and_then(|h| Felt::from_hex(h).ok())).collect(),
                    None => return false,
                };
                if vals.len() < 2 || vals.len() % 2 != 0 {
                    return false;
                }
                // a one-column cell enters the tree as cell * 2^256 (Montgomery form): send leaf / 2^256
                let r_inv = b2f(&pow2(256)).inverse().unwrap();
                let leaves: Vec<Value> = vals.chunks(2).map(|r| Value::String(fhex(&(crate::refm::merkle::row_leaf(crate::refm::merkle::Variant::of_build(), r, height, nf) * r_inv)))).collect();
                v["witness"]["composition_decommitment"]["values"] = Value::Array(leaves);
                v["config"]["composition"]["n_columns"] = Value::String("0x1".into());
                true
            }
        }
    }
    pub fn class(&self) -> String {
        let pc = |p: &String| jw::path_class(&jw::parse_path(p));
        match self {
            Dev::Pop(p) => format!("{}:pop", pc(p)),
            Dev::Clear(p) => format!("{}:clear", pc(p)),
            Dev::Shift(p) => format!("{}:shift", pc(p)),
            Dev::Append(p) => format!("{}:append", pc(p)),
            Dev::Repeat(p, k) => format!("{}:repeat{}", pc(p), k),
            Dev::Set(p, _) => format!("{}:set", pc(p)),
            Dev::DropDynamic => "public_input.dynamic_params:drop".into(),
            Dev::AddPageHeader(..) => "public_input.continuous_page_headers:add".into(),
            Dev::CompositionPrehashed => "composition:one-column-prehashed".into(),
        }
    }
    pub fn to_json(&self) -> Value {
        match self {
            Dev::Pop(p) => json!({"op": "pop", "path": p}),
            Dev::Clear(p) => json!({"op": "clear", "path": p}),
            Dev::Shift(p) => json!({"op": "shift", "path": p}),
            Dev::Append(p) => json!({"op": "append", "path": p}),
            Dev::Repeat(p, k) => json!({"op": "repeat", "path": p, "k": k}),
            Dev::Set(p, x) => json!({"op": "set", "path": p, "value": x}),
            Dev::DropDynamic => json!({"op": "drop_dynamic"}),
            Dev::AddPageHeader(a, b) => json!({"op": "add_page_header", "size": a, "prod": b}),
            Dev::CompositionPrehashed => json!({"op": "composition_prehashed"}),
        }
    }
    pub fn from_json(v: &Value) -> Option<Dev> {
        let p = || v.get("path").and_then(|x| x.as_str()).map(|s| s.to_string());
        Some(match v.get("op")?.as_str()? {
            "pop" => Dev::Pop(p()?),
            "clear" => Dev::Clear(p()?),
            "shift" => Dev::Shift(p()?),
            "append" => Dev::Append(p()?),
            "repeat" => Dev::Repeat(p()?, v.get("k")?.as_u64()? as usize),
            "set" => Dev::Set(p()?, v.get("value")?.clone()),
            "drop_dynamic" => Dev::DropDynamic,
            "add_page_header" => Dev::AddPageHeader(v.get("size")?.as_str()?.to_string(), v.get("prod")?.as_str()?.to_string()),
            "composition_prehashed" => Dev::CompositionPrehashed,
            _ => return None,
        })
    }
}

pub fn extreme_felts() -> Vec<Felt> {
    vec![Felt::ZERO, Felt::ONE, fu(1 << 16), fu(1 << 32), fu(1 << 40), fu(u64::MAX), b2f(&pow2(64)), b2f(&pow2(128)), p_minus(1), p_minus(2)]
}

/// `numeric_only`: felt leaves that are *numbers* (config, public-input scalars, segment
/// addresses, cell addresses) get the extreme menu; hashes / field values only {0, p-1}.
pub fn devs(base: &Value, prefix: &str) -> Vec<Dev> {
    let mut out = Vec::new();
    for a in jw::arrays(base) {
        let ps = jw::path_str(&a);
        if !ps.starts_with(prefix) {
            continue;
        }
        out.push(Dev::Pop(ps.clone()));
        out.push(Dev::Clear(ps.clone()));
        out.push(Dev::Shift(ps.clone()));
        out.push(Dev::Repeat(ps.clone(), 2));
        out.push(Dev::Repeat(ps.clone(), 3));
        out.push(Dev::Append(ps));
    }
    for l in jw::leaves(base) {
        let ps = jw::path_str(&l);
        if !ps.starts_with(prefix) {
            continue;
        }
        let numeric = ps.starts_with("config")
            || (ps.starts_with("public_input") && !ps.ends_with(".value") && !ps.contains("dynamic_params"));
        match jw::get(base, &l).unwrap() {
            Value::String(_) => {
                let in_big_vector = matches!(l.last(), Some(jw::Seg::Idx(i)) if *i > 2) || (ps.contains("main_page[") && !ps.contains("main_page[0]") && !ps.contains("main_page[1]."));
                let menu = if numeric && !in_big_vector { extreme_felts() } else if in_big_vector { vec![] } else { vec![Felt::ZERO, p_minus(1)] };
                for m in menu {
                    out.push(Dev::Set(ps.clone(), Value::String(fhex(&m))));
                }
            }
            Value::Number(_) => {
                let is_u8 = ps.ends_with("n_bits");
                let menu: Vec<u64> = if is_u8 { vec![0, 1, 19, 51, 128, 129, 255] } else { vec![0, 1, 2, 1 << 16, 1 << 32, 1 << 40, u64::MAX] };
                // the 340 dynamic parameters: all of them, reduced menu
                let menu = if ps.contains("dynamic_params") { vec![0, 1, 3, 1 << 32, u64::MAX] } else { menu };
                for m in menu {
                    out.push(Dev::Set(ps.clone(), json!(m)));
                }
            }
            _ => {}
        }
    }
    out
}

#[derive(Clone, Copy, Debug, PartialEq)]
pub enum Subject {
    Verify,
    ConfigValidate,
    ValidatePublicInput,
    VerifyPublicInput,
}
impl Subject {
    fn name(&self) -> &'static str {
        match self {
            Subject::Verify => "verify",
            Subject::ConfigValidate => "config.validate",
            Subject::ValidatePublicInput => "validate_public_input",
            Subject::VerifyPublicInput => "verify_public_input",
        }
    }
    fn from(s: &str) -> Option<Subject> {
        Some(match s {
            "verify" => Subject::Verify,
            "config.validate" => Subject::ConfigValidate,
            "validate_public_input" => Subject::ValidatePublicInput,
            "verify_public_input" => Subject::VerifyPublicInput,
            _ => return None,
        })
    }
}

fn cols<L: GenericLayoutTrait>(p: &StarkProof) -> Option<(usize, usize)> {
    Some((L::get_num_columns_first(&p.public_input)?, L::get_num_columns_second(&p.public_input)?))
}

pub fn run_subject(sub: Subject, p: &StarkProof, layout: &str) -> Verdict {
    match sub {
        Subject::Verify => verify(p, layout),
        Subject::ConfigValidate => {
            let c = with_layout!(layout, L, cols::<L>(p));
            match c {
                Some((a, b)) => verdict(|| p.config.validate(own_security(p), fu(a as u64), fu(b as u64))),
                None => Verdict::Err("ColumnMissing".into()),
            }
        }
        Subject::ValidatePublicInput => verdict(|| {
            let d = StarkDomains::new(p.config.log_trace_domain_size, p.config.log_n_cosets);
            with_layout!(layout, L, L::validate_public_input(&p.public_input, &d))
        }),
        Subject::VerifyPublicInput => verdict(|| with_layout!(layout, L, L::verify_public_input(&p.public_input))),
    }
}

fn exec(b: &Base, ds: &[Dev], sub: Subject) -> Option<Verdict> {
    let mut v = b.value.clone();
    for d in ds {
        if !d.apply(&mut v) {
            return None;
        }
    }
    let p = proof_from_value(&v)?;
    Some(run_subject(sub, &p, &b.layout))
}

fn record(rep: &mut Report, b: &Base, ds: &[Dev], sub: Subject, v: Option<Verdict>) {
    let v = match v {
        Some(v) => v,
        None => {
            rep.eval("skipped:not-applicable");
            return;
        }
    };
    let desc: Vec<String> = ds.iter().map(|d| format!("{:?}", d)).collect();
    rep.eval(&format!("{}:{}", sub.name(), v.short()));
    rep.nontrivial_case(&format!("{}|{}|{}", b.name, sub.name(), desc.join("+")));
    rep.sample(&format!("{}:{}:{}", sub.name(), v.short(), ds.len()), json!({"proof": b.name, "subject": sub.name(), "deviations": ds.iter().map(|d| d.to_json()).collect::<Vec<_>>(), "observed": v.class()}));
    if let Verdict::Panic(p) = &v {
        rep.violation(&format!("panic:{}:{}", sub.name(), p.site()),
            &format!("{} panics at {}:{} ({}) - e.g. {} with {}", sub.name(), p.file, p.line, p.msg.chars().take(80).collect::<String>(), b.name, desc.join(" + ")),
            json!({"kind": "malformed", "proof": b.name, "subject": sub.name(), "deviations": ds.iter().map(|d| d.to_json()).collect::<Vec<_>>()}));
    }
}

/// A well-typed proof for a tiny trace: valid configuration and public input, vectors of
/// the right lengths, junk commitments.  It must be *rejected*, not crash the verifier.
pub fn skeleton(layout: &str, log_trace: u64, page_cells: u64) -> Option<StarkProof> {
    let (c1, c2, _) = crate::refm::stonefile::layout_consts(layout)?;
    let mask = with_layout!(layout, L, L::MASK_SIZE + L::CONSTRAINT_DEGREE);
    // steps: as many 1-steps as fit, last layer bound 0..: sum(steps) + last = log_trace
    let mut steps = vec![0u64];
    let mut left = log_trace;
    while left > 0 && steps.len() < 15 {
        let s = left.min(4);
        steps.push(s);
        left -= s;
    }
    if steps.len() < 2 || left > 15 {
        return None;
    }
    let cfg = crate::props::c11::make(fu(log_trace), fu(2), &steps, fu(left), fu(4), 20, fu(0), (c1, c2), None);
    let r = crate::refm::pubin::rules(layout)?;
    let mut segs = vec![json!({"begin_addr": "0x1", "stop_ptr": "0x5"}), json!({"begin_addr": "0x10", "stop_ptr": "0x20"}), json!({"begin_addr": "0x20", "stop_ptr": "0x22"})];
    for k in 3..r.n_segments {
        segs.push(json!({"begin_addr": format!("{:#x}", 0x100 * k), "stop_ptr": format!("{:#x}", 0x100 * k)}));
    }
    let mut page: Vec<Value> = (1..=13u64).map(|a| json!({"address": format!("{:#x}", a), "value": format!("{:#x}", 1000 + a)})).collect();
    for k in 0..page_cells.saturating_sub(15) {
        page.push(json!({"address": format!("{:#x}", 0x1000 + k), "value": "0x5"}));
    }
    page.push(json!({"address": "0x20", "value": "0x77"}));
    page.push(json!({"address": "0x21", "value": "0x78"}));
    let pi = json!({
        "log_n_steps": format!("{:#x}", log_trace - 4), "range_check_min": "0x10", "range_check_max": "0x8000",
        "layout": fhex(&b2f(&num_bigint::BigUint::from_bytes_be(layout.as_bytes()))),
        "segments": segs, "padding_addr": "0x1", "padding_value": "0x3e9", "main_page": page, "continuous_page_headers": [],
    });
    let junk = |n: usize, salt: u64| -> Vec<Value> { (0..n).map(|i| Value::String(format!("{:#x}", 0x1234_5678u64 * (i as u64 + 1) + salt))).collect() };
    let tw = json!({"vector": {"authentications": []}});
    let v = json!({
        "config": serde_json::to_value(&cfg).ok()?,
        "public_input": pi,
        "unsent_commitment": {
            "traces": {"original": "0x111", "interaction": "0x222"}, "composition": "0x333", "oods_values": junk(mask, 7),
            "fri": {"inner_layers": junk(steps.len() - 1, 9), "last_layer_coefficients": junk(1usize << left, 11)},
            "proof_of_work": {"nonce": 0}
        },
        "witness": {
            "traces_decommitment": {"original": {"values": []}, "interaction": {"values": []}},
            "traces_witness": {"original": tw, "interaction": tw},
            "composition_decommitment": {"values": []}, "composition_witness": tw,
            "fri_witness": {"layers": (0..steps.len() - 1).map(|_| json!({"leaves": [], "table_witness": tw})).collect::<Vec<_>>()}
        }
    });
    proof_from_value(&v)
}

/// Exponents at the shift / word boundaries: public-input validation of every static layout with
/// `log_n_steps` (and the trace exponent, moved along or not) at 31..33, 62..66, 79, 80, 127, 128, 255, 256.
fn exponent_boundaries(rep: &mut Report) {
    for layout in crate::refm::stonefile::LAYOUTS.iter().filter(|l| **l != "dynamic") {
        let base = match skeleton(layout, 10, 15) {
            Some(p) => p,
            None => continue,
        };
        let v0 = proof_to_value_local(&base);
        let lt0 = 10u64;
        let ls0 = match v0["public_input"]["log_n_steps"].as_str().and_then(|h| Felt::from_hex(h).ok()) {
            Some(f) => crate::kit::f2b(&f).to_u64_digits().first().cloned().unwrap_or(0),
            None => continue,
        };
        let gap = lt0.saturating_sub(ls0); // log of the layout's rows per step
        for e in [31u64, 32, 33, 62, 63, 64, 65, 66, 79, 80, 127, 128, 255, 256] {
            for (tag, lt) in [("steps-only", lt0), ("steps-and-trace", e + gap)] {
                let mut v = v0.clone();
                v["public_input"]["log_n_steps"] = Value::String(format!("{:#x}", e));
                v["config"]["log_trace_domain_size"] = Value::String(format!("{:#x}", lt));
                let p = match proof_from_value(&v) {
                    Some(p) => p,
                    None => continue,
                };
                // the domain constructor is not the subject here: it is only called by verify after validation
                let (ltf, lcf) = (p.config.log_trace_domain_size, p.config.log_n_cosets);
                if crate::kit::panics::catch(move || StarkDomains::new(ltf, lcf)).is_err() {
                    rep.eval("exponent-boundary:domain-constructor-panics:skipped");
                    continue;
                }
                for sub in [Subject::ValidatePublicInput, Subject::VerifyPublicInput] {
                    let r = run_subject(sub, &p, layout);
                    rep.eval(&format!("exponent-boundary:{}:{}", sub.name(), r.short()));
                    rep.nontrivial_case(&format!("expb|{}|{}|{}|{}", layout, e, tag, sub.name()));
                    if let Verdict::Panic(pn) = &r {
                        rep.violation(&format!("panic:{}:{}", sub.name(), pn.site()),
                            &format!("{} panics at {}:{} ({}) - layout {}, log_n_steps = {}, trace exponent {}", sub.name(), pn.file, pn.line, pn.msg.chars().take(60).collect::<String>(), layout, e, lt),
                            json!({"kind": "exponent", "layout": layout, "log_n_steps": e, "log_trace": lt, "subject": sub.name()}));
                    }
                }
            }
        }
    }
}
fn proof_to_value_local(p: &StarkProof) -> Value {
    serde_json::to_value(p).expect("proof serialises")
}

fn skeletons(rep: &mut Report) {
    for layout in crate::refm::stonefile::LAYOUTS.iter().filter(|l| **l != "dynamic") {
        for t in 4..=16u64 {
            for cells in [15u64, 40] {
                let p = match skeleton(layout, t, cells) {
                    Some(p) => p,
                    None => continue,
                };
                // the pieces the skeleton relies on are valid (otherwise it tests nothing)
                let cfg_ok = run_subject(Subject::ConfigValidate, &p, layout).accepted();
                let pi_ok = run_subject(Subject::ValidatePublicInput, &p, layout).accepted();
                let v = verify(&p, layout);
                rep.eval(&format!("skeleton:{}:{}", if cfg_ok && pi_ok { "valid-shell" } else { "invalid-shell" }, v.short()));
                rep.nontrivial_case(&format!("skeleton|{}|{}|{}", layout, t, cells));
                rep.sample(&format!("skeleton:{}:{}", v.short(), layout.len()), json!({"kind": "skeleton", "layout": layout, "log_trace": t, "main_page_cells": cells, "observed": v.class()}));
                if let Verdict::Panic(pn) = &v {
                    rep.violation(&format!("panic:verify:{}", pn.site()),
                        &format!("verify panics at {}:{} ({}) - e.g. tiny-trace skeleton proof, layout {}, trace 2^{}, {} main-page cells", pn.file, pn.line, pn.msg.chars().take(60).collect::<String>(), layout, t, cells),
                        json!({"kind": "skeleton", "layout": layout, "log_trace": t, "cells": cells}));
                }
            }
        }
    }
}

pub fn run(ctx: &Ctx) -> Report {
    let mut rep = Report::new(
        "C18",
        "exploration",
        "honest proofs of this build with 1 deviation (every vector: last element removed / emptied / first element removed / last \
         element duplicated; every numeric field at {0,1,2^16,2^32,2^40,2^64-1,2^64,2^128,p-1,p-2}; hashes at {0,p-1}; dynamic \
         parameters dropped) run through StarkProof::verify, and - restricted to their own sub-tree - through StarkConfig::validate, \
         validate_public_input and verify_public_input on their own; thorough adds pairs (a vector deviation + its governing count \
         field, two configuration numbers). Oracle: the call returns (Ok or Err); a panic is a violation keyed by its site. \
         Non-trivial: the deviation changes the typed value; distinct by (proof, subject, deviation(s))",
    );
    rep.trust("catch_unwind + panic hook observe panics; aborts (stack overflow, allocation failure) would end the run as a machinery error");
    let quick = ctx.quick();
    let mut bs = bases(ctx, !quick);
    if quick {
        // the dynamic layout has its own validation code driven by 340 parameters: include its proof
        // (native to the blake2s_248 / stone6 build) in the quick tier as well
        bs.extend(bases(ctx, true).into_iter().filter(|b| b.layout == "dynamic"));
    }
    for b in &bs {
        let all = devs(&b.value, "");
        let mut jobs: Vec<(Vec<Dev>, Subject)> = Vec::new();
        for d in &all {
            jobs.push((vec![d.clone()], Subject::Verify));
        }
        for d in devs(&b.value, "config") {
            jobs.push((vec![d], Subject::ConfigValidate));
        }
        for d in devs(&b.value, "public_input") {
            jobs.push((vec![d.clone()], Subject::ValidatePublicInput));
            jobs.push((vec![d], Subject::VerifyPublicInput));
        }
        jobs.push((vec![Dev::DropDynamic], Subject::Verify));
        jobs.push((vec![Dev::CompositionPrehashed], Subject::Verify));
        // two appended page headers whose sizes only overflow TOGETHER (machine words / the field)
        for (s1, s2) in [("0x80000000000000000000000000000000", "0x80000000000000000000000000000000"), ("0x8000000000000000", "0x8000000000000000"),
            ("0xffffffffffffffff", "0x1"), ("0xffffffff", "0x1"), ("0x400000000000008800000000000000000000000000000000000000000000000", "0x400000000000008800000000000000000000000000000000000000000000001")] {
            for sub in [Subject::Verify, Subject::ValidatePublicInput, Subject::VerifyPublicInput] {
                jobs.push((vec![Dev::AddPageHeader(s1.into(), "0x5".into()), Dev::AddPageHeader(s2.into(), "0x7".into())], sub));
            }
        }
        for (size, prod) in [("0x0", "0x0"), ("0x1", "0x0"), ("0x1", "0x1"), ("0x0", "0x1"), ("0x10000000000000000", "0x5"),
            ("0x800000000000011000000000000000000000000000000000000000000000000", "0x5"), ("0x3", "0x800000000000011000000000000000000000000000000000000000000000000")] {
            for sub in [Subject::Verify, Subject::ValidatePublicInput, Subject::VerifyPublicInput] {
                jobs.push((vec![Dev::AddPageHeader(size.into(), prod.into())], sub));
            }
        }
        if !quick {
            // pairs: a vector deviation together with the count field governing it; two config numbers
            let gov: Vec<(&str, &str)> = vec![
                ("config.fri.fri_step_sizes", "config.fri.n_layers"), ("config.fri.inner_layers", "config.fri.n_layers"),
                ("unsent_commitment.fri.inner_layers", "config.fri.n_layers"), ("witness.fri_witness.layers", "config.fri.n_layers"),
                ("unsent_commitment.fri.last_layer_coefficients", "config.fri.log_last_layer_degree_bound"),
                ("unsent_commitment.oods_values", "config.traces.original.n_columns"),
                ("witness.traces_decommitment.original.values", "config.traces.original.n_columns"),
                ("witness.traces_decommitment.interaction.values", "config.traces.interaction.n_columns"),
                ("witness.composition_decommitment.values", "config.composition.n_columns"),
                ("public_input.segments", "public_input.log_n_steps"),
            ];
            for (vecp, cnt) in gov {
                let cur = match jw::get(&b.value, &jw::parse_path(cnt)).and_then(|x| x.as_str()).and_then(|s| Felt::from_hex(s).ok()) {
                    Some(c) => c,
                    None => continue,
                };
                for vd in [Dev::Pop(vecp.into()), Dev::Clear(vecp.into()), Dev::Shift(vecp.into()), Dev::Append(vecp.into())] {
                    for nv in [cur - Felt::ONE, cur + Felt::ONE, Felt::ZERO, Felt::ONE] {
                        jobs.push((vec![vd.clone(), Dev::Set(cnt.into(), Value::String(fhex(&nv)))], Subject::Verify));
                        if vecp.starts_with("config") {
                            jobs.push((vec![vd.clone(), Dev::Set(cnt.into(), Value::String(fhex(&nv)))], Subject::ConfigValidate));
                        }
                    }
                }
            }
            let cfg_leaves: Vec<String> = jw::leaves(&b.value).iter().map(jw::path_str).filter(|p| p.starts_with("config") && !p.ends_with("n_bits")).collect();
            for i in 0..cfg_leaves.len() {
                for j in i + 1..cfg_leaves.len() {
                    for (x, y) in [(Felt::ZERO, Felt::ZERO), (p_minus(1), Felt::ONE), (Felt::ONE, p_minus(1))] {
                        jobs.push((vec![Dev::Set(cfg_leaves[i].clone(), Value::String(fhex(&x))), Dev::Set(cfg_leaves[j].clone(), Value::String(fhex(&y)))], Subject::ConfigValidate));
                    }
                }
            }
        }
        // consistent re-declarations (trace exponent +1 / +8 / +40 with every dependent number following, blow-up
        // 1 / 16, query counts, ...): they pass configuration validation and reach the code behind it
        for (desc, v) in crate::props::c17::redeclarations(b) {
            if let Some(p) = proof_from_value(&v) {
                let r = run_subject(Subject::Verify, &p, &b.layout);
                rep.eval(&format!("redeclared:verify:{}", r.short()));
                rep.nontrivial_case(&format!("{}|redeclared|{}", b.name, desc));
                if let Verdict::Panic(pn) = &r {
                    rep.violation(&format!("panic:verify:{}", pn.site()),
                        &format!("verify panics at {}:{} ({}) - e.g. {} re-declared: {}", pn.file, pn.line, pn.msg.chars().take(80).collect::<String>(), b.name, desc),
                        json!({"kind": "redeclared", "proof": b.name, "desc": desc}));
                }
            }
        }
        let results: Vec<Option<Verdict>> = jobs.par_iter().map(|(ds, sub)| exec(b, ds, *sub)).collect();
        for ((ds, sub), v) in jobs.iter().zip(results) {
            record(&mut rep, b, ds, *sub, v);
        }
    }
    if build_name() == "k160s5" || !quick {
        // proofs built by the C01 game prover (their commitments enter the transcript, so they cannot be reached
        // by editing an honest proof): a composition table committed with three columns, with and without a
        // solved composition pair, ...
        for (desc, p) in crate::props::c01::prover_built_proofs(ctx) {
            let r = verify(&p, "recursive");
            rep.eval(&format!("prover-built:verify:{}", r.short()));
            rep.nontrivial_case(&format!("prover-built|{}", desc));
            if let Verdict::Panic(pn) = &r {
                rep.violation(&format!("panic:verify:{}", pn.site()),
                    &format!("verify panics at {}:{} ({}) - proof built by the game prover with moves: {}", pn.file, pn.line, pn.msg.chars().take(80).collect::<String>(), desc),
                    json!({"kind": "prover-built", "moves": desc}));
            }
        }
        skeletons(&mut rep);
        exponent_boundaries(&mut rep);
    }
    rep.bound_completed = format!("{} proofs on build {}; {} deviation(s) + tiny-trace skeleton proofs", bs.len(), build_name(), if quick { "1" } else { "1 and selected pairs" });
    rep
}

pub fn replay(ctx: &Ctx, case: &Value) -> super::ReplayResult {
    if case["kind"].as_str() == Some("skeleton") {
        let layout = case["layout"].as_str().ok_or("layout")?;
        let p = skeleton(layout, case["log_trace"].as_u64().ok_or("log_trace")?, case["cells"].as_u64().unwrap_or(15)).ok_or("no skeleton")?;
        let v = verify(&p, layout);
        return Ok((matches!(v, Verdict::Panic(_)), format!("skeleton -> {}", v.class())));
    }
    if case["kind"].as_str() == Some("prover-built") {
        let want = case["moves"].as_str().ok_or("moves")?;
        let (_, p) = crate::props::c01::prover_built_proofs(ctx).into_iter().find(|(d, _)| d == want).ok_or("no such prover-built proof")?;
        let r = verify(&p, "recursive");
        return Ok((matches!(r, Verdict::Panic(_)), format!("verify -> {}", r.class())));
    }
    if case["kind"].as_str() == Some("redeclared") {
        let name = case["proof"].as_str().ok_or("proof")?;
        let b = bases(ctx, true).into_iter().find(|b| b.name == name).ok_or("no such base proof on this build")?;
        let want = case["desc"].as_str().ok_or("desc")?;
        let (_, v) = crate::props::c17::redeclarations(&b).into_iter().find(|(d, _)| d == want).ok_or("no such re-declaration")?;
        let p = proof_from_value(&v).ok_or("untypable")?;
        let r = run_subject(Subject::Verify, &p, &b.layout);
        return Ok((matches!(r, Verdict::Panic(_)), format!("verify -> {}", r.class())));
    }
    if case["kind"].as_str() == Some("exponent") {
        let layout = case["layout"].as_str().ok_or("layout")?;
        let base = skeleton(layout, 10, 15).ok_or("no skeleton")?;
        let mut v = proof_to_value_local(&base);
        v["public_input"]["log_n_steps"] = Value::String(format!("{:#x}", case["log_n_steps"].as_u64().ok_or("log_n_steps")?));
        v["config"]["log_trace_domain_size"] = Value::String(format!("{:#x}", case["log_trace"].as_u64().ok_or("log_trace")?));
        let p = proof_from_value(&v).ok_or("untypable")?;
        let sub = Subject::from(case["subject"].as_str().ok_or("subject")?).ok_or("bad subject")?;
        let r = run_subject(sub, &p, layout);
        return Ok((matches!(r, Verdict::Panic(_)), format!("{} -> {}", sub.name(), r.class())));
    }
    let name = case["proof"].as_str().ok_or("proof")?;
    let b = bases(ctx, true).into_iter().find(|b| b.name == name).ok_or("no such base proof on this build")?;
    let sub = Subject::from(case["subject"].as_str().ok_or("subject")?).ok_or("bad subject")?;
    let ds: Vec<Dev> = case["deviations"].as_array().ok_or("deviations")?.iter().map(Dev::from_json).collect::<Option<_>>().ok_or("bad deviation")?;
    match exec(&b, &ds, sub) {
        None => Err("deviation does not apply".into()),
        Some(v) => Ok((matches!(v, Verdict::Panic(_)), format!("{} -> {}", sub.name(), v.class()))),
    }
}
