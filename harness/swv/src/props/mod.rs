//! One module per property.
use crate::kit::{report::Report, Ctx};
use serde_json::Value;

pub mod c12;

pub type ReplayResult = Result<(bool, String), String>;

pub fn run(prop: &str, ctx: &Ctx) -> Option<Report> {
    match prop {
        "C12" => Some(c12::run(ctx)),
        _ => None,
    }
}

pub fn replay(prop: &str, ctx: &Ctx, case: &Value) -> ReplayResult {
    match prop {
        "C12" => c12::replay(ctx, case),
        _ => Err(format!("no replay for property {}", prop)),
    }
}
