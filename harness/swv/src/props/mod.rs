//! One module per property.
use crate::kit::{report::Report, Ctx};
use serde_json::Value;

pub mod c04;
pub mod c05;
pub mod c09;
pub mod c10;
pub mod c08;
pub mod c11;
pub mod c15;
pub mod c06;
pub mod c07;
#[cfg(feature = "full")]
pub mod c03;
#[cfg(feature = "full")]
pub mod c02;
#[cfg(feature = "full")]
pub mod c13;
#[cfg(feature = "full")]
pub mod c14;
#[cfg(feature = "full")]
pub mod c16;
#[cfg(feature = "full")]
pub mod c18;
#[cfg(feature = "full")]
pub mod c17;
#[cfg(feature = "full")]
pub mod c19;
#[cfg(feature = "full")]
pub mod c01;
#[cfg(feature = "full")]
pub mod c01dyn;
pub mod c12;
#[cfg(feature = "full")]
pub mod common;
#[cfg(feature = "full")]
pub mod c08full;

pub type ReplayResult = Result<(bool, String), String>;

pub fn run(prop: &str, ctx: &Ctx) -> Option<Report> {
    match prop {
        "C04" => Some(c04::run(ctx)),
        "C05" => Some(c05::run(ctx)),
        "C09" => Some(c09::run(ctx)),
        "C10" => Some(c10::run(ctx)),
        "C08" => Some(c08::run(ctx)),
        "C11" => Some(c11::run(ctx)),
        "C15" => Some(c15::run(ctx)),
        "C06" => Some(c06::run(ctx)),
        "C07" => Some(c07::run(ctx)),
        #[cfg(feature = "full")]
        "C03" => Some(c03::run(ctx)),
        #[cfg(feature = "full")]
        "C02" => Some(c02::run(ctx)),
        #[cfg(feature = "full")]
        "C13" => Some(c13::run(ctx)),
        #[cfg(feature = "full")]
        "C14" => Some(c14::run(ctx)),
        #[cfg(feature = "full")]
        "C16" => Some(c16::run(ctx)),
        #[cfg(feature = "full")]
        "C18" => Some(c18::run(ctx)),
        #[cfg(feature = "full")]
        "C17" => Some(c17::run(ctx)),
        #[cfg(feature = "full")]
        "C19" => Some(c19::run(ctx)),
        #[cfg(feature = "full")]
        "C01" => Some(c01::run(ctx)),
        "C12" => Some(c12::run(ctx)),
        _ => None,
    }
}

pub fn replay(prop: &str, ctx: &Ctx, case: &Value) -> ReplayResult {
    match prop {
        "C04" => c04::replay(ctx, case),
        "C05" => c05::replay(ctx, case),
        "C09" => c09::replay(ctx, case),
        "C10" => c10::replay(ctx, case),
        "C08" => c08::replay(ctx, case),
        "C11" => c11::replay(ctx, case),
        "C15" => c15::replay(ctx, case),
        "C06" => c06::replay(ctx, case),
        "C07" => c07::replay(ctx, case),
        #[cfg(feature = "full")]
        "C03" => c03::replay(ctx, case),
        #[cfg(feature = "full")]
        "C02" => c02::replay(ctx, case),
        #[cfg(feature = "full")]
        "C13" => c13::replay(ctx, case),
        #[cfg(feature = "full")]
        "C14" => c14::replay(ctx, case),
        #[cfg(feature = "full")]
        "C16" => c16::replay(ctx, case),
        #[cfg(feature = "full")]
        "C18" => c18::replay(ctx, case),
        #[cfg(feature = "full")]
        "C17" => c17::replay(ctx, case),
        #[cfg(feature = "full")]
        "C19" => c19::replay(ctx, case),
        #[cfg(feature = "full")]
        "C01" => c01::replay(ctx, case),
        "C12" => c12::replay(ctx, case),
        _ => Err(format!("no replay for property {}", prop)),
    }
}
