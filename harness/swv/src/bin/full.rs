fn main() {
    std::process::exit(swv::entry());
}
