fn main() {
    // run on a thread with a large stack (see swv::entry)
    let h = std::thread::Builder::new().stack_size(1 << 30).spawn(swv::entry).expect("spawn");
    std::process::exit(h.join().unwrap_or(2));
}
