//! Reference FRI prover working in coefficient space (Appendix A).
//! polynomial -> layer evaluations on the bit-reversed domain -> table commitments ->
//! fold P(x) = sum_j x^j P_j(x^(2^s))  |->  2^s * sum_j b^j P_j(y) on coefficients ->
//! last-layer coefficients -> per-query coset leaves and authentication paths.
use crate::kit::b2f;
use crate::refm::{merkle::{Table, Variant}, sponge::Sponge, zint};
use starknet_crypto::Felt;
use std::collections::BTreeSet;

#[derive(Clone, Debug, PartialEq, Eq)]
pub struct Params {
    /// step list including the leading 0
    pub steps: Vec<u32>,
    /// log2 of the last-layer degree bound
    pub last: u32,
    /// log2 of the blow-up
    pub blowup: u32,
    pub n_friendly: u64,
}
impl Params {
    pub fn sum_steps(&self) -> u32 {
        self.steps.iter().sum()
    }
    pub fn log_input_size(&self) -> u32 {
        self.sum_steps() + self.last + self.blowup
    }
    /// log2 of the degree bound of the input
    pub fn log_degree(&self) -> u32 {
        self.sum_steps() + self.last
    }
    pub fn n_layers(&self) -> usize {
        self.steps.len()
    }
    /// log2 size of layer t (t = 0 is the input layer)
    pub fn layer_log_size(&self, t: usize) -> u32 {
        self.log_input_size() - self.steps[1..=t].iter().sum::<u32>()
    }
}

pub fn horner(coeffs: &[Felt], x: &Felt) -> Felt {
    let mut r = Felt::ZERO;
    for c in coeffs.iter().rev() {
        r = r * *x + *c;
    }
    r
}

/// x_i = w^bitrev_n(i), w = 3^((p-1)/2^n)
pub fn domain(n: u32) -> Vec<Felt> {
    let w = b2f(&zint::root_of_unity(n));
    let size = 1usize << n;
    let mut pows = Vec::with_capacity(size);
    let mut cur = Felt::ONE;
    for _ in 0..size {
        pows.push(cur);
        cur *= w;
    }
    (0..size).map(|i| pows[zint::bitrev(i as u64, n) as usize]).collect()
}

/// P'(y) = 2^s * sum_j b^j P_j(y) where P(x) = sum_j x^j P_j(x^(2^s)).
pub fn fold_coeffs(p: &[Felt], s: u32, b: &Felt) -> Vec<Felt> {
    let m = 1usize << s;
    let out_len = (p.len() + m - 1) / m;
    let scale = Felt::from(m as u64);
    let mut out = vec![Felt::ZERO; out_len];
    for (k, o) in out.iter_mut().enumerate() {
        let mut acc = Felt::ZERO;
        let mut bj = Felt::ONE;
        for j in 0..m {
            if let Some(c) = p.get(k * m + j) {
                acc += bj * *c;
            }
            bj *= *b;
        }
        *o = scale * acc;
    }
    out
}

pub struct Layer {
    pub log_size: u32,
    pub step: u32,
    pub evals: Vec<Felt>,
    pub table: Table,
    pub poly: Vec<Felt>,
}

pub struct Prover {
    pub params: Params,
    pub layers: Vec<Layer>,
    pub eval_points: Vec<Felt>,
    /// all coefficients of the polynomial after the last fold (may exceed 2^last)
    pub last_full: Vec<Felt>,
    pub input_domain: Vec<Felt>,
}

pub struct LayerOpening {
    pub leaves: Vec<Felt>,
    pub auth: Vec<Felt>,
    /// rows of this layer's table that are opened (= queries of the next layer)
    pub rows: Vec<usize>,
}
pub struct Opening {
    pub queries: Vec<usize>,
    pub values: Vec<Felt>,
    /// points as the STARK hands them to FRI: 3 * x_i
    pub points: Vec<Felt>,
    pub layers: Vec<LayerOpening>,
}

impl Prover {
    /// Commit phase against `sponge` (which is advanced exactly as `fri_commit` advances
    /// the real transcript).  `evals_override` lets a caller commit to an arbitrary
    /// input layer instead of the evaluations of `poly` (used by the STARK game).
    pub fn commit(params: &Params, variant: Variant, poly: &[Felt], sponge: &mut Sponge) -> Prover {
        let n = params.log_input_size();
        let input_domain = domain(n);
        let mut layers = Vec::new();
        let mut eval_points = Vec::new();
        let mut cur_poly = poly.to_vec();
        for t in 0..params.n_layers() - 1 {
            let log_size = params.layer_log_size(t);
            let step = params.steps[t + 1];
            let dom = if t == 0 { input_domain.clone() } else { domain(log_size) };
            let evals: Vec<Felt> = dom.iter().map(|x| horner(&cur_poly, x)).collect();
            let cols = 1usize << step;
            let rows: Vec<Vec<Felt>> = evals.chunks(cols).map(|c| c.to_vec()).collect();
            let table = Table::build(variant, rows, params.n_friendly);
            sponge.absorb(&[table.root()]);
            let b = sponge.squeeze();
            eval_points.push(b);
            let next = fold_coeffs(&cur_poly, step, &b);
            layers.push(Layer { log_size, step, evals, table, poly: cur_poly });
            cur_poly = next;
        }
        let prover = Prover { params: params.clone(), layers, eval_points, last_full: cur_poly, input_domain };
        sponge.absorb(&prover.last_layer());
        prover
    }
    pub fn commitments(&self) -> Vec<Felt> {
        self.layers.iter().map(|l| l.table.root()).collect()
    }
    /// exactly 2^last coefficients: padded with zeros, or TRUNCATED if the input was
    /// above the degree bound
    pub fn last_layer(&self) -> Vec<Felt> {
        let want = 1usize << self.params.last;
        let mut v = self.last_full.clone();
        v.resize(want, Felt::ZERO);
        v
    }
    pub fn open(&self, queries: &[usize]) -> Opening {
        let three = Felt::THREE;
        let values = queries.iter().map(|&q| self.layers[0].evals[q]).collect();
        let points = queries.iter().map(|&q| three * self.input_domain[q]).collect();
        let mut cur: Vec<usize> = queries.to_vec();
        let mut outs = Vec::new();
        for l in &self.layers {
            let cols = 1usize << l.step;
            let set: BTreeSet<usize> = cur.iter().cloned().collect();
            let rows: Vec<usize> = cur.iter().map(|q| q / cols).collect::<BTreeSet<_>>().into_iter().collect();
            let mut leaves = Vec::new();
            for &r in &rows {
                for j in 0..cols {
                    let idx = r * cols + j;
                    if !set.contains(&idx) {
                        leaves.push(l.evals[idx]);
                    }
                }
            }
            let (_, auth) = l.table.open(&rows);
            outs.push(LayerOpening { leaves, auth, rows: rows.clone() });
            cur = rows;
        }
        Opening { queries: queries.to_vec(), values, points, layers: outs }
    }
    /// last-layer index a query ends up at
    pub fn last_index(&self, q: usize) -> usize {
        q >> self.params.sum_steps()
    }
    /// Whether an honest-but-truncated last layer still agrees with the true folded
    /// polynomial at the point query `q` folds to (the exact acceptance set of C07's census).
    pub fn tail_vanishes_at(&self, q: usize) -> bool {
        let log_last = self.params.last + self.params.blowup;
        let dom = domain(log_last);
        let y = dom[self.last_index(q)];
        horner(&self.last_full, &y) == horner(&self.last_layer(), &y)
    }
}
