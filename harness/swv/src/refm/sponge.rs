//! Reference Fiat-Shamir sponge (Appendix A): absorb(m_1..m_r): digest <- PoseidonMany(digest+1, m_1..m_r),
//! counter <- 0; squeeze: Poseidon(digest, counter), counter <- counter+1.
use starknet_crypto::{poseidon_hash, poseidon_hash_many, Felt};

#[derive(Clone, Debug, PartialEq, Eq, Hash)]
pub struct Sponge {
    pub digest: Felt,
    pub counter: u64,
}
impl Sponge {
    pub fn new(digest: Felt) -> Self {
        Sponge { digest, counter: 0 }
    }
    pub fn absorb(&mut self, ms: &[Felt]) {
        let mut v = Vec::with_capacity(ms.len() + 1);
        v.push(self.digest + Felt::ONE);
        v.extend_from_slice(ms);
        self.digest = poseidon_hash_many(&v);
        self.counter = 0;
    }
    pub fn squeeze(&mut self) -> Felt {
        let r = poseidon_hash(self.digest, Felt::from(self.counter));
        self.counter += 1;
        r
    }
}
