//! Independent loader for Stone proof JSON files (no code shared with
//! /repo/proof_parser: hand-written line scanner, own configuration derivation).
//! Every `P->V[a:b]` annotation is cross-checked against `proof_hex`.
use crate::kit::{b2f, f2b, fu, prime, Ctx, HashKind};
use num_bigint::BigUint;
use num_traits::Zero;
use serde_json::{json, Map, Value};
use starknet_crypto::Felt;
use swiftness_air::{
    dynamic::DynamicParams,
    trace,
    types::{AddrValue, SegmentInfo},
};
use swiftness_commitment::{
    table::{config::Config as TableConfig, types::{Decommitment as TableDecommitment, Witness as TableWitness}},
    vector::{config::Config as VecConfig, types::Witness as VecWitness},
};
use swiftness_fri::types::{LayerWitness, UnsentCommitment as FriUnsent, Witness as FriWitness};
use swiftness_stark::{config::StarkConfig, types::{StarkProof, StarkUnsentCommitment, StarkWitness}};

pub const LAYOUTS: [&str; 7] = ["dex", "recursive", "recursive_with_poseidon", "small", "starknet", "starknet_with_keccak", "dynamic"];
pub const SEGMENT_ORDER: [&str; 13] = [
    "program", "execution", "output", "pedersen", "range_check", "ecdsa", "bitwise", "ec_op", "keccak", "poseidon", "range_check96", "add_mod", "mul_mod",
];

/// (first-trace columns, interaction columns, cpu component step)
pub fn layout_consts(layout: &str) -> Option<(u64, u64, u64)> {
    Some(match layout {
        "dex" => (21, 1, 1),
        "recursive" => (7, 3, 1),
        "recursive_with_poseidon" => (6, 2, 1),
        "small" => (23, 2, 1),
        "starknet" => (9, 1, 1),
        "starknet_with_keccak" => (12, 3, 1),
        _ => return None,
    })
}

#[derive(Clone, Debug)]
pub struct Line {
    pub p2v: Option<(usize, usize)>,
    pub path: String,
    pub label: String,
    pub kind: String,
    pub payload: String,
}

/// Hand-written scanner for one annotation line; None for titles / statistics.
pub fn scan_line(s: &str) -> Option<Line> {
    let (p2v, rest) = if let Some(r) = s.strip_prefix("P->V[") {
        let close = r.find(']')?;
        let (a, b) = r[..close].split_once(':')?;
        let rest = r[close + 1..].strip_prefix(": ")?;
        (Some((a.parse().ok()?, b.parse().ok()?)), rest)
    } else if let Some(r) = s.strip_prefix("V->P: ") {
        (None, r)
    } else {
        return None;
    };
    // "<path>: <label>: <Kind>(<payload>)"
    let open = rest.find('(')?;
    if !rest.ends_with(')') {
        return None;
    }
    let payload = rest[open + 1..rest.len() - 1].to_string();
    let head = &rest[..open];
    let k = head.rfind(": ")?;
    let kind = head[k + 2..].to_string();
    let head = &head[..k];
    let (path, label) = match head.find(": ") {
        Some(i) => (head[..i].to_string(), head[i + 2..].to_string()),
        None => (head.trim_end_matches(':').to_string(), String::new()),
    };
    Some(Line { p2v, path, label, kind, payload })
}

pub fn parse_hex_big(s: &str) -> Option<BigUint> {
    let t = s.trim();
    let t = t.strip_prefix("0x").unwrap_or(t);
    if t.is_empty() || !t.bytes().all(|b| b.is_ascii_hexdigit()) {
        return None;
    }
    BigUint::parse_bytes(t.as_bytes(), 16)
}
fn big_to_felt_strict(b: &BigUint) -> Option<Felt> {
    if *b >= prime() {
        None
    } else {
        Some(b2f(b))
    }
}

#[derive(Clone, Debug, Default)]
pub struct ProverLog {
    pub interaction_elements: Vec<Felt>,
    pub constraint_alpha: Option<Felt>,
    pub oods_point: Option<Felt>,
    pub oods_alpha: Option<Felt>,
    pub fri_eval_points: Vec<Felt>,
    pub query_indices: Vec<u64>,
}

#[derive(Clone, Debug)]
pub struct Meta {
    pub layout: String,
    pub commit_hash: HashKind,
    pub mask_bits: u32,
    pub pow_hash: HashKind,
    pub n_friendly: u64,
    pub log_trace: u32,
    pub log_n_cosets: u32,
    pub n_queries: u64,
    pub pow_bits: u64,
    pub fri_steps: Vec<u64>,
}
impl Meta {
    /// a Merkle layer (incl. the table row level) hashed with the masked hash exists
    pub fn has_masked_layer(&self) -> bool {
        // deepest level any commitment has: evaluation-domain exponent + 1 (row level)
        self.n_friendly < (self.log_trace + self.log_n_cosets) as u64 + 1
    }
}

pub struct Loaded {
    pub proof: StarkProof,
    pub meta: Meta,
    pub log: ProverLog,
    /// (row index) of every first-trace decommitment line, in stream order
    pub trace0_rows: Vec<u64>,
    pub lines: usize,
    pub p2v_lines: usize,
    pub hex_checked_bytes: usize,
    pub ambiguous: Vec<String>,
}

fn need<'a>(v: &'a Value, k: &str) -> Result<&'a Value, String> {
    v.get(k).ok_or(format!("missing field {}", k))
}
fn need_u64(v: &Value, k: &str) -> Result<u64, String> {
    let x = need(v, k)?;
    x.as_u64().ok_or(format!("field {} is not a non-negative integer: {}", k, x))
}
fn log2_exact(x: u64, what: &str) -> Result<u32, String> {
    if x == 0 || !x.is_power_of_two() {
        Err(format!("{} = {} is not a power of two", what, x))
    } else {
        Ok(x.trailing_zeros())
    }
}

/// Load a Stone proof from its JSON text.  Err = the file is malformed or holds a value
/// that does not fit the verifier's types.
pub fn load(text: &str) -> Result<Loaded, String> {
    load_opts(text, true)
}

/// `strict` = every consistency check (byte-level agreement with proof_hex, contiguous
/// P->V ranges, exactly one of each singleton message, numbered FRI layers): used for the
/// shipped corpus.  Lenient = "what the file's annotations say, in stream order": used as the
/// oracle for *edited* files, where the property only asks that the parser returns the
/// recorded values or an error.  In lenient mode a repeated singleton is reported in
/// `ambiguous` (first occurrence kept) and lines of unknown kinds are ignored.
pub fn load_opts(text: &str, strict: bool) -> Result<Loaded, String> {
    let doc: Value = serde_json::from_str(text).map_err(|e| format!("not JSON: {}", e))?;
    let pp = need(&doc, "proof_parameters")?;
    let pi = need(&doc, "public_input")?;
    let stark = need(pp, "stark")?;
    let fri = need(stark, "fri")?;
    let layout = need(pi, "layout")?.as_str().ok_or("layout is not a string")?.to_string();
    if layout == "plain" {
        return Err("unjudged: the parser knows a `plain` layout the verifier does not have".into());
    }
    if !LAYOUTS.contains(&layout.as_str()) {
        return Err(format!("unsupported layout {}", layout));
    }
    let dynp = pi.get("dynamic_params").filter(|d| !d.is_null());
    // ---- dynamic params, matched BY NAME against the verifier's struct
    let dynamic_params: Option<DynamicParams> = match dynp {
        None => None,
        Some(d) => {
            let m = d.as_object().ok_or("dynamic_params is not an object")?;
            if m.is_empty() {
                None
            } else {
                let mut by_field = Map::new();
                for (k, v) in m {
                    let n = v.as_u64().ok_or(format!("dynamic parameter {} is not a non-negative integer", k))?;
                    let field = k.replace("__", "_");
                    if by_field.insert(field.clone(), json!(n)).is_some() {
                        return Err(format!("dynamic parameter {} given twice", field));
                    }
                }
                Some(serde_json::from_value::<DynamicParams>(Value::Object(by_field)).map_err(|e| format!("dynamic parameters do not match the layout's: {}", e))?)
            }
        }
    };
    let (cols1, cols2, cpu_step) = match (&dynamic_params, layout.as_str()) {
        (Some(d), "dynamic") => (d.num_columns_first as u64, d.num_columns_second as u64, d.cpu_component_step as u64),
        (None, "dynamic") => return Err("unjudged: dynamic layout without dynamic parameters (column counts are not recorded)".into()),
        (Some(_), _) => return Err("unjudged: dynamic parameters given for a static layout".into()),
        (None, l) => layout_consts(l).unwrap(),
    };
    // ---- numbers
    let n_steps = need_u64(pi, "n_steps")?;
    let log_n_steps = log2_exact(n_steps, "n_steps")?;
    let log_trace = log2_exact(16u64.checked_mul(cpu_step).and_then(|x| x.checked_mul(n_steps)).ok_or("trace length overflows")?, "trace length")?;
    let log_n_cosets = need_u64(stark, "log_n_cosets")?;
    let n_friendly = match pp.get("n_verifier_friendly_commitment_layers") {
        None => 0,
        Some(v) => v.as_u64().ok_or("n_verifier_friendly_commitment_layers is not a non-negative integer")?,
    };
    let steps: Vec<u64> = need(fri, "fri_step_list")?.as_array().ok_or("fri_step_list is not a list")?.iter()
        .map(|s| s.as_u64().ok_or("fri step is not a non-negative integer".to_string())).collect::<Result<_, _>>()?;
    if steps.is_empty() {
        return Err("empty fri_step_list".into());
    }
    let last_bound = need_u64(fri, "last_layer_degree_bound")?;
    let log_last = log2_exact(last_bound, "last_layer_degree_bound")?;
    let n_queries = need_u64(fri, "n_queries")?;
    let pow_bits = need_u64(fri, "proof_of_work_bits")?;
    if pow_bits > 255 {
        return Err(format!("proof_of_work_bits = {} does not fit the verifier's u8", pow_bits));
    }
    let eval = log_trace as u64 + log_n_cosets;
    let tcfg = |cols: u64, h: u64| TableConfig { n_columns: fu(cols), vector: VecConfig { height: fu(h), n_verifier_friendly_commitment_layers: fu(n_friendly) } };
    let mut inner = Vec::new();
    let mut h = eval.checked_sub(steps[0]).ok_or("fri steps exceed the evaluation domain")?;
    for &s in &steps[1..] {
        if s >= 32 {
            return Err("fri step too large".into());
        }
        h = h.checked_sub(s).ok_or("fri steps exceed the evaluation domain")?;
        inner.push(tcfg(1u64 << s, h));
    }
    let config = StarkConfig {
        traces: trace::config::Config { original: tcfg(cols1, eval), interaction: tcfg(cols2, eval) },
        composition: tcfg(2, eval),
        fri: swiftness_fri::config::Config {
            log_input_size: fu(eval),
            n_layers: fu(steps.len() as u64),
            inner_layers: inner,
            fri_step_sizes: steps.iter().map(|&s| fu(s)).collect(),
            log_last_layer_degree_bound: fu(log_last as u64),
        },
        proof_of_work: swiftness_pow::config::Config { n_bits: pow_bits as u8 },
        log_trace_domain_size: fu(log_trace as u64),
        n_queries: fu(n_queries),
        log_n_cosets: fu(log_n_cosets),
        n_verifier_friendly_commitment_layers: fu(n_friendly),
    };
    // ---- public input
    let segs = need(pi, "memory_segments")?.as_object().ok_or("memory_segments is not an object")?;
    for k in segs.keys() {
        if !SEGMENT_ORDER.contains(&k.as_str()) {
            return Err(format!("unknown segment name {}", k));
        }
    }
    let mut segments = Vec::new();
    for name in SEGMENT_ORDER {
        if let Some(s) = segs.get(name) {
            segments.push(SegmentInfo { begin_addr: fu(need_u64(s, "begin_addr")?), stop_ptr: fu(need_u64(s, "stop_ptr")?) });
        }
    }
    let pm = need(pi, "public_memory")?.as_array().ok_or("public_memory is not a list")?;
    if pm.is_empty() {
        return Err("empty public memory".into());
    }
    let mut main_page = Vec::new();
    let mut pages: std::collections::BTreeMap<u64, Vec<(u64, Felt)>> = std::collections::BTreeMap::new();
    let mut first: Option<(Felt, Felt)> = None;
    for c in pm {
        let addr = need_u64(c, "address")?;
        let page = need_u64(c, "page")?;
        let val = parse_hex_big(need(c, "value")?.as_str().ok_or("memory value is not a string")?).ok_or("memory value is not hex")?;
        let val = big_to_felt_strict(&val).ok_or("memory value is not a field element")?;
        if first.is_none() {
            first = Some((fu(addr), val));
        }
        if page != 0 {
            pages.entry(page).or_default().push((addr, val));
        } else {
            main_page.push(AddrValue { address: fu(addr), value: val });
        }
    }
    let (padding_addr, padding_value) = first.unwrap();
    let public_input = crate::refm::make_public_input(
        fu(log_n_steps as u64), fu(need_u64(pi, "rc_min")?), fu(need_u64(pi, "rc_max")?), b2f(&BigUint::from_bytes_be(layout.as_bytes())),
        dynamic_params.as_ref().map(|d| serde_json::to_value(d).unwrap()),
        &segments.iter().map(|s| (s.begin_addr, s.stop_ptr)).collect::<Vec<_>>(), (padding_addr, padding_value),
        &main_page.iter().map(|c| (c.address, c.value)).collect::<Vec<_>>(), &[],
    );
    // continuous pages: ids 1..k, each a run of consecutive addresses
    for (i, (id, cells)) in pages.iter().enumerate() {
        if *id != i as u64 + 1 {
            return Err("page ids are not consecutive".into());
        }
        for (k, (a, _)) in cells.iter().enumerate() {
            if *a != cells[0].0 + k as u64 {
                return Err("continuous page is not a run of consecutive addresses".into());
            }
        }
    }
    let mut public_input = public_input;
    // ---- annotations
    let ann = need(&doc, "annotations")?.as_array().ok_or("annotations is not a list")?;
    let bytes: Vec<u8> = if strict {
        let hex = need(&doc, "proof_hex")?.as_str().ok_or("proof_hex is not a string")?;
        let hex = hex.strip_prefix("0x").unwrap_or(hex);
        (0..hex.len() / 2).map(|i| u8::from_str_radix(&hex[2 * i..2 * i + 2], 16).map_err(|_| "proof_hex is not hex".to_string())).collect::<Result<_, _>>()?
    } else {
        Vec::new()
    };
    let mut ambiguous: Vec<String> = Vec::new();
    let mut original = None;
    let mut interaction = None;
    let mut composition = None;
    let mut oods: Option<Vec<Felt>> = None;
    let mut fri_commitments: Vec<(u64, Felt)> = Vec::new();
    let mut last_layer: Option<Vec<Felt>> = None;
    let mut nonce: Option<BigUint> = None;
    let n_traces = 3;
    let mut tr_leaves: Vec<Vec<Felt>> = vec![Vec::new(); n_traces];
    let mut tr_auth: Vec<Vec<Felt>> = vec![Vec::new(); n_traces];
    let n_fri_layers = steps.len();
    let mut fr_leaves: Vec<Vec<Felt>> = vec![Vec::new(); n_fri_layers.saturating_sub(1)];
    let mut fr_auth: Vec<Vec<Felt>> = vec![Vec::new(); n_fri_layers.saturating_sub(1)];
    let mut log = ProverLog::default();
    let mut trace0_rows = Vec::new();
    let mut next_byte = 0usize;
    let mut p2v_lines = 0usize;
    let mut hex_checked = 0usize;
    let mut n_lines = 0usize;
    let felt_of = |s: &str| -> Result<Felt, String> {
        let b = parse_hex_big(s).ok_or(format!("bad hex value '{}'", s.chars().take(40).collect::<String>()))?;
        big_to_felt_strict(&b).ok_or("value is not a field element".to_string())
    };
    let once = |slot: &mut Option<Felt>, v: Felt, what: &str, amb: &mut Vec<String>| -> Result<(), String> {
        if slot.is_some() {
            if strict {
                return Err(format!("{} given twice", what));
            }
            amb.push(format!("{} given twice", what));
            return Ok(());
        }
        *slot = Some(v);
        Ok(())
    };
    for a in ann {
        let s = a.as_str().ok_or("annotation is not a string")?;
        let line = match scan_line(s) {
            Some(l) => l,
            None => {
                if strict && (s.starts_with("P->V") || s.starts_with("V->P")) {
                    return Err(format!("unparsable annotation line: {}", s.chars().take(80).collect::<String>()));
                }
                continue;
            }
        };
        n_lines += 1;
        let path = match line.path.strip_prefix("/cpu air/STARK/") {
            Some(p) => p,
            None if strict => return Err(format!("unexpected annotation path {}", line.path)),
            None => continue,
        };
        match line.p2v {
            None => {
                // verifier challenges, as the prover logged them (never handed to the verifier:
                // in lenient mode an unreadable value is simply not logged)
                let val = felt_of(&line.payload);
                if strict && val.is_err() && line.kind == "Field Element" {
                    return Err(val.unwrap_err());
                }
                match (path, line.kind.as_str()) {
                    ("Interaction", "Field Element") => {
                        if let Ok(v) = val {
                            log.interaction_elements.push(v)
                        }
                    }
                    ("Original", "Field Element") => log.constraint_alpha = val.ok(),
                    ("Out Of Domain Sampling/OODS values", "Field Element") => log.oods_point = val.ok(),
                    ("Out Of Domain Sampling", "Field Element") => log.oods_alpha = val.ok(),
                    ("FRI/QueryIndices", "Number") => match line.payload.trim().parse() {
                        Ok(q) => log.query_indices.push(q),
                        Err(_) if strict => return Err("bad query index".into()),
                        Err(_) => {}
                    },
                    (p, "Field Element") if p.starts_with("FRI/Commitment/Layer ") => {
                        if let Ok(v) = val {
                            log.fri_eval_points.push(v)
                        }
                    }
                    _ if strict => return Err(format!("unexpected V->P line: {}", s.chars().take(80).collect::<String>())),
                    _ => {}
                }
            }
            Some((a0, b0)) => {
                p2v_lines += 1;
                if strict && (a0 != next_byte || b0 <= a0 || b0 > bytes.len()) {
                    return Err(format!("P->V byte range [{}:{}] does not continue the stream at {}", a0, b0, next_byte));
                }
                next_byte = b0;
                let vals: Vec<Felt> = if line.kind == "Field Elements" {
                    line.payload.split(',').map(|x| felt_of(x)).collect::<Result<_, _>>()?
                } else {
                    vec![]
                };
                // byte-level cross check
                let chunk: &[u8] = if strict { &bytes[a0..b0] } else { &[] };
                let mont = |v: &Felt| b2f(&(f2b(v) << 256usize));
                let is_decommit_cell = path.starts_with("FRI/Decommitment/") && line.kind == "Field Element";
                let check_word = |w: &[u8], v: &Felt, montgomery: bool| -> bool {
                    let expect = if montgomery { mont(v) } else { *v };
                    w == expect.to_bytes_be()
                };
                let single: Option<BigUint> = if line.kind != "Field Elements" { Some(parse_hex_big(&line.payload).ok_or(format!("bad hex value in {}", path))?) } else { None };
                if !strict {
                    // no byte-level check for edited files
                } else if line.kind == "Field Elements" {
                    if chunk.len() != 32 * vals.len() || !vals.iter().enumerate().all(|(i, v)| check_word(&chunk[32 * i..32 * i + 32], v, false)) {
                        return Err(format!("proof_hex[{}:{}] does not hold the listed field elements", a0, b0));
                    }
                } else {
                    let b = single.clone().unwrap();
                    if line.kind == "Data" && path == "FRI/Proof of Work" {
                        let mut w = b.to_bytes_be();
                        while w.len() < chunk.len() {
                            w.insert(0, 0);
                        }
                        if w != chunk {
                            return Err("proof_hex does not hold the proof-of-work nonce".into());
                        }
                    } else {
                        let v = big_to_felt_strict(&b).ok_or("value is not a field element")?;
                        if chunk.len() != 32 || !check_word(chunk, &v, is_decommit_cell) {
                            return Err(format!("proof_hex[{}:{}] does not hold the annotated value ({})", a0, b0, path));
                        }
                    }
                }
                hex_checked += b0 - a0;
                let one = || -> Result<Felt, String> { big_to_felt_strict(single.as_ref().unwrap()).ok_or("value is not a field element".to_string()) };
                match (path, line.kind.as_str()) {
                    ("Original/Commit on Trace", "Hash") => once(&mut original, one()?, "original commitment", &mut ambiguous)?,
                    ("Interaction/Commit on Trace", "Hash") => once(&mut interaction, one()?, "interaction commitment", &mut ambiguous)?,
                    ("Out Of Domain Sampling/Commit on Trace", "Hash") => once(&mut composition, one()?, "composition commitment", &mut ambiguous)?,
                    ("Out Of Domain Sampling/OODS values", "Field Elements") => {
                        match (&mut oods, strict) {
                            (Some(_), true) => return Err("OODS values given twice".into()),
                            (Some(o), false) => o.extend(vals),
                            (None, _) => oods = Some(vals),
                        }
                    }
                    ("FRI/Commitment/Last Layer", "Field Elements") => {
                        match (&mut last_layer, strict) {
                            (Some(_), true) => return Err("last layer given twice".into()),
                            (Some(o), false) => o.extend(vals),
                            (None, _) => last_layer = Some(vals),
                        }
                    }
                    ("FRI/Proof of Work", "Data") => {
                        if nonce.is_some() {
                            if strict {
                                return Err("nonce given twice".into());
                            }
                            ambiguous.push("nonce given twice".into());
                        } else {
                            nonce = single.clone()
                        }
                    }
                    (p, k) if p.starts_with("FRI/Commitment/Layer ") && k == "Hash" => {
                        let idx: u64 = p["FRI/Commitment/Layer ".len()..].parse().map_err(|_| "bad FRI layer number")?;
                        fri_commitments.push((idx, one()?));
                    }
                    (p, k) if p.starts_with("FRI/Decommitment/Layer 0/Virtual Oracle/Trace ") => {
                        let t: usize = p["FRI/Decommitment/Layer 0/Virtual Oracle/Trace ".len()..].parse().map_err(|_| "bad trace number")?;
                        if t >= n_traces {
                            if strict {
                                return Err("bad trace number".into());
                            }
                            continue;
                        }
                        if k == "Field Element" && line.label.starts_with("Row ") {
                            if t == 0 {
                                let r = line.label["Row ".len()..].split(',').next().unwrap_or("").trim();
                                trace0_rows.push(r.parse().map_err(|_| "bad row label")?);
                            }
                            tr_leaves[t].push(one()?);
                        } else if k == "Hash" || k == "Data" {
                            tr_auth[t].push(one()?);
                        } else if strict {
                            return Err(format!("unexpected decommitment line kind {} / {}", k, line.label));
                        }
                    }
                    (p, k) if p.starts_with("FRI/Decommitment/Layer ") => {
                        let l: usize = p["FRI/Decommitment/Layer ".len()..].parse().map_err(|_| "bad FRI layer number")?;
                        if l == 0 || l > fr_leaves.len() {
                            if strict {
                                return Err(format!("decommitment for FRI layer {} but the step list has {} layers", l, n_fri_layers));
                            }
                            // lenient: a line of a layer the step list does not declare belongs to no
                            // vector the verifier is handed; it is ignored
                            continue;
                        }
                        if k == "Field Element" {
                            fr_leaves[l - 1].push(one()?);
                        } else if k == "Hash" || k == "Data" {
                            fr_auth[l - 1].push(one()?);
                        } else if strict {
                            return Err("unexpected FRI decommitment line kind".into());
                        }
                    }
                    _ if strict => return Err(format!("unexpected P->V line: {}", s.chars().take(80).collect::<String>())),
                    _ => {}
                }
            }
        }
    }
    if strict && next_byte != bytes.len() {
        return Err(format!("annotations cover {} bytes of a {}-byte proof", next_byte, bytes.len()));
    }
    // FRI commitments must be numbered 1..n-1 in order
    if strict {
        for (i, (idx, _)) in fri_commitments.iter().enumerate() {
            if *idx != i as u64 + 1 {
                return Err("FRI layer commitments out of order".into());
            }
        }
        if fri_commitments.len() + 1 != n_fri_layers {
            return Err(format!("{} FRI layer commitments for {} steps", fri_commitments.len(), n_fri_layers));
        }
    }
    if !pages.is_empty() {
        let (z, alpha) = match (log.interaction_elements.first(), log.interaction_elements.get(1)) {
            (Some(z), Some(a)) => (*z, *a),
            _ => return Err("continuous pages but no interaction elements to take z, alpha from".into()),
        };
        for cells in pages.values() {
            let vals: Vec<Felt> = cells.iter().map(|c| c.1).collect();
            let hash = {
                let h = vals.iter().fold(Felt::ZERO, |acc, v| starknet_crypto::pedersen_hash(&acc, v));
                starknet_crypto::pedersen_hash(&h, &Felt::from(vals.len() as u64))
            };
            let prod = cells.iter().fold(Felt::ONE, |acc, (a, v)| acc * (z - (fu(*a) + alpha * *v)));
            public_input.continuous_page_headers.push(swiftness_air::types::ContinuousPageHeader { start_address: fu(cells[0].0), size: fu(cells.len() as u64), hash, prod });
        }
    }
    let nonce = nonce.ok_or("no proof-of-work nonce")?;
    if nonce.bits() > 64 {
        return Err("nonce does not fit 64 bits".into());
    }
    let nonce_u64: u64 = if nonce.is_zero() { 0 } else { nonce.to_u64_digits()[0] };
    let tw = |a: Vec<Felt>| TableWitness { vector: VecWitness { authentications: a } };
    let mut tl = tr_leaves.into_iter();
    let mut ta = tr_auth.into_iter();
    let (l0, l1, l2) = (tl.next().unwrap(), tl.next().unwrap(), tl.next().unwrap());
    let (a0, a1, a2) = (ta.next().unwrap(), ta.next().unwrap(), ta.next().unwrap());
    let proof = StarkProof {
        config,
        public_input,
        unsent_commitment: StarkUnsentCommitment {
            traces: trace::UnsentCommitment { original: original.ok_or("no original commitment")?, interaction: interaction.ok_or("no interaction commitment")? },
            composition: composition.ok_or("no composition commitment")?,
            oods_values: match oods {
                Some(o) => o,
                None if strict => return Err("no OODS values".into()),
                None => vec![],
            },
            fri: FriUnsent { inner_layers: fri_commitments.into_iter().map(|x| x.1).collect(), last_layer_coefficients: match last_layer {
                Some(o) => o,
                None if strict => return Err("no last layer".into()),
                None => vec![],
            } },
            proof_of_work: swiftness_pow::pow::UnsentCommitment { nonce: nonce_u64 },
        },
        witness: StarkWitness {
            traces_decommitment: trace::Decommitment { original: TableDecommitment { values: l0 }, interaction: TableDecommitment { values: l1 } },
            traces_witness: trace::Witness { original: tw(a0), interaction: tw(a1) },
            composition_decommitment: TableDecommitment { values: l2 },
            composition_witness: tw(a2),
            fri_witness: FriWitness { layers: fr_leaves.into_iter().zip(fr_auth).map(|(l, a)| LayerWitness { leaves: l, table_witness: tw(a) }).collect() },
        },
    };
    let hash_of = |s: &str| -> Result<(HashKind, u32), String> {
        let kind = if s.starts_with("keccak") { HashKind::Keccak } else if s.starts_with("blake") { HashKind::Blake2s } else { return Err(format!("unknown hash {}", s)) };
        let bits = if s.contains("masked160") { 160 } else if s.contains("masked248") { 248 } else { 0 };
        Ok((kind, bits))
    };
    let (commit_hash, mask_bits) = hash_of(pp.get("commitment_hash").and_then(|x| x.as_str()).unwrap_or("keccak256_masked160_lsb"))?;
    let (pow_hash, _) = hash_of(pp.get("pow_hash").and_then(|x| x.as_str()).unwrap_or("keccak256"))?;
    let meta = Meta { layout, commit_hash, mask_bits, pow_hash, n_friendly, log_trace, log_n_cosets: log_n_cosets as u32, n_queries, pow_bits, fri_steps: steps };
    Ok(Loaded { proof, meta, log, trace0_rows, lines: n_lines, p2v_lines, hex_checked_bytes: hex_checked, ambiguous })
}

// ------------------------------------------------------------------ the shipped corpus
pub struct ProofFile {
    pub name: String,
    pub path: String,
    pub stone6: bool,
    pub text: String,
    pub loaded: Loaded,
}
impl ProofFile {
    /// the build (hash variant x stone version) the proof was produced for
    pub fn native_build(&self) -> String {
        format!("{}{}{}", if self.loaded.meta.commit_hash == HashKind::Keccak { "k" } else { "b" }, self.loaded.meta.mask_bits, if self.stone6 { "s6" } else { "s5" })
    }
    pub fn logged_query_rows(&self) -> Option<Vec<u64>> {
        if self.loaded.log.query_indices.is_empty() {
            return None;
        }
        let mut v = self.loaded.log.query_indices.clone();
        v.sort();
        v.dedup();
        Some(v)
    }
}

pub fn corpus_paths(repo: &str) -> Vec<(String, String)> {
    let mut out = Vec::new();
    for l in LAYOUTS {
        let dir = format!("{}/examples/proofs/{}", repo, l);
        if let Ok(rd) = std::fs::read_dir(&dir) {
            let mut names: Vec<String> = rd.filter_map(|e| e.ok()).map(|e| e.file_name().to_string_lossy().to_string()).filter(|n| n.ends_with("_proof.json")).collect();
            names.sort();
            for n in names {
                out.push((format!("{}/{}", l, n.trim_end_matches(".json")), format!("{}/{}", dir, n)));
            }
        }
    }
    out
}

/// All shipped proofs (machinery error if one cannot be loaded: the corpus is honest).
pub fn corpus(ctx: &Ctx) -> Vec<ProofFile> {
    let mut out = Vec::new();
    for (name, path) in corpus_paths(&ctx.repo) {
        let text = match std::fs::read_to_string(&path) {
            Ok(t) => t,
            Err(e) => {
                eprintln!("MACHINERY-ERROR: cannot read {}: {}", path, e);
                std::process::exit(2);
            }
        };
        match load(&text) {
            Ok(loaded) => {
                let stone6 = name.contains("stone6");
                out.push(ProofFile { name, path, stone6, text, loaded })
            }
            Err(e) => {
                eprintln!("MACHINERY-ERROR: independent loader rejects shipped proof {}: {}", path, e);
                std::process::exit(2);
            }
        }
    }
    if out.is_empty() {
        eprintln!("MACHINERY-ERROR: no proofs found under {}/examples/proofs", ctx.repo);
        std::process::exit(2);
    }
    out
}

/// The shipped proofs whose native build is the one this binary was compiled for.
pub fn native_proofs(ctx: &Ctx) -> Vec<ProofFile> {
    let b = crate::kit::build_name();
    corpus(ctx).into_iter().filter(|p| p.native_build() == b).collect()
}
