//! Reference Merkle vector / table commitments (Appendix A).  The hash variant is a
//! run-time parameter so that trees for the *other* variants can be built too.
use crate::kit::{b2f, f2b, HashKind};
use blake2::Blake2s256;
use sha3::{Digest, Keccak256};
use starknet_crypto::{poseidon_hash, poseidon_hash_many, Felt};
use std::collections::BTreeSet;

#[derive(Clone, Copy, Debug, PartialEq, Eq)]
pub struct Variant {
    pub kind: HashKind,
    pub bits: u32,
}
pub const VARIANTS: [Variant; 4] = [
    Variant { kind: HashKind::Keccak, bits: 160 },
    Variant { kind: HashKind::Keccak, bits: 248 },
    Variant { kind: HashKind::Blake2s, bits: 160 },
    Variant { kind: HashKind::Blake2s, bits: 248 },
];
impl Variant {
    pub fn of_build() -> Variant {
        let (kind, bits) = crate::kit::build_hash();
        Variant { kind, bits }
    }
    pub fn name(&self) -> String {
        format!("{}_{}", if self.kind == HashKind::Keccak { "keccak" } else { "blake2s" }, self.bits)
    }
}

/// Low `bits` bits of H(data) as a field element (bits = 160 or 248, both < 251).
pub fn masked_hash(v: Variant, data: &[u8]) -> Felt {
    let d: [u8; 32] = match v.kind {
        HashKind::Keccak => Keccak256::digest(data).into(),
        HashKind::Blake2s => Blake2s256::digest(data).into(),
    };
    let keep = (v.bits / 8) as usize;
    let mut out = [0u8; 32];
    out[32 - keep..].copy_from_slice(&d[32 - keep..]);
    Felt::from_bytes_be(&out)
}

/// Parent of two children that sit at depth `child_depth`.
pub fn node_hash(v: Variant, l: &Felt, r: &Felt, child_depth: u64, n_friendly: u64) -> Felt {
    if n_friendly >= child_depth {
        poseidon_hash(*l, *r)
    } else {
        let mut data = Vec::with_capacity(64);
        data.extend_from_slice(&l.to_bytes_be());
        data.extend_from_slice(&r.to_bytes_be());
        masked_hash(v, &data)
    }
}

/// levels[d] = nodes at depth d (levels[0] = [root], levels[h] = leaves).
pub struct Tree {
    pub height: u32,
    pub levels: Vec<Vec<Felt>>,
}
impl Tree {
    pub fn build(v: Variant, leaves: &[Felt], n_friendly: u64) -> Tree {
        assert!(leaves.len().is_power_of_two());
        let h = leaves.len().trailing_zeros();
        let mut levels: Vec<Vec<Felt>> = vec![Vec::new(); h as usize + 1];
        levels[h as usize] = leaves.to_vec();
        for d in (1..=h as usize).rev() {
            let cur = &levels[d];
            let mut up = Vec::with_capacity(cur.len() / 2);
            for i in 0..cur.len() / 2 {
                up.push(node_hash(v, &cur[2 * i], &cur[2 * i + 1], d as u64, n_friendly));
            }
            levels[d - 1] = up;
        }
        Tree { height: h, levels }
    }
    pub fn root(&self) -> Felt {
        self.levels[0][0]
    }
    /// Authentication nodes for a set of distinct leaf indices: the siblings that cannot
    /// be derived from the queried set, level by level from the leaves up, left to right.
    /// Also returns (depth, index) of each.
    pub fn witness(&self, queries: &[usize]) -> (Vec<Felt>, Vec<(u32, usize)>) {
        let mut out = Vec::new();
        let mut pos = Vec::new();
        let mut cur: BTreeSet<usize> = queries.iter().cloned().collect();
        for d in (1..=self.height).rev() {
            let mut next = BTreeSet::new();
            for &i in &cur {
                let sib = i ^ 1;
                if !cur.contains(&sib) {
                    out.push(self.levels[d as usize][sib]);
                    pos.push((d, sib));
                }
                next.insert(i / 2);
            }
            cur = next;
        }
        (out, pos)
    }
}

/// A tree of any height up to 64 in which only a few leaves are set (all others hold `default`): root and
/// authentication nodes are computed from the set leaves and the hashes of all-default subtrees, without
/// materialising the tree.  Same node order as `Tree::witness`.
pub struct SparseTree {
    pub height: u32,
    pub root: Felt,
    pub auths: Vec<Felt>,
}
impl SparseTree {
    pub fn open(v: Variant, height: u32, n_friendly: u64, default: Felt, leaves: &std::collections::BTreeMap<u128, Felt>) -> SparseTree {
        // dflt[d] = hash of an all-default subtree whose root sits at depth d
        let mut dflt = vec![Felt::ZERO; height as usize + 1];
        dflt[height as usize] = default;
        for d in (1..=height as usize).rev() {
            dflt[d - 1] = node_hash(v, &dflt[d], &dflt[d], d as u64, n_friendly);
        }
        let mut cur: std::collections::BTreeMap<u128, Felt> = leaves.clone();
        let mut auths = Vec::new();
        for d in (1..=height as usize).rev() {
            let mut next = std::collections::BTreeMap::new();
            for (&i, h) in cur.iter() {
                let sib = i ^ 1;
                let sh = match cur.get(&sib) {
                    Some(x) => *x,
                    None => {
                        auths.push(dflt[d]);
                        dflt[d]
                    }
                };
                let (l, r) = if i & 1 == 0 { (*h, sh) } else { (sh, *h) };
                next.entry(i / 2).or_insert_with(|| node_hash(v, &l, &r, d as u64, n_friendly));
            }
            cur = next;
        }
        SparseTree { height, root: cur.get(&0).cloned().unwrap_or(dflt[0]), auths }
    }
}

/// Montgomery form used by the table commitment: v * 2^256 mod p, in integer arithmetic.
pub fn mont(v: &Felt) -> Felt {
    b2f(&(f2b(v) << 256))
}

/// Leaf committed for one table row.
pub fn row_leaf(v: Variant, row: &[Felt], height: u32, n_friendly: u64) -> Felt {
    let m: Vec<Felt> = row.iter().map(mont).collect();
    if m.len() == 1 {
        m[0]
    } else if n_friendly >= height as u64 + 1 {
        poseidon_hash_many(&m)
    } else {
        let mut data = Vec::with_capacity(32 * m.len());
        for x in &m {
            data.extend_from_slice(&x.to_bytes_be());
        }
        masked_hash(v, &data)
    }
}

pub struct Table {
    pub n_columns: usize,
    pub rows: Vec<Vec<Felt>>,
    pub tree: Tree,
}
impl Table {
    /// `cells` row-major, 2^height rows.
    pub fn build(v: Variant, rows: Vec<Vec<Felt>>, n_friendly: u64) -> Table {
        let h = rows.len().trailing_zeros();
        let n_columns = rows[0].len();
        let leaves: Vec<Felt> = rows.iter().map(|r| row_leaf(v, r, h, n_friendly)).collect();
        Table { n_columns, rows, tree: Tree::build(v, &leaves, n_friendly) }
    }
    pub fn root(&self) -> Felt {
        self.tree.root()
    }
    pub fn height(&self) -> u32 {
        self.tree.height
    }
    /// values (row-major, in query order) and authentication nodes for distinct sorted rows
    pub fn open(&self, queries: &[usize]) -> (Vec<Felt>, Vec<Felt>) {
        let mut values = Vec::new();
        for &q in queries {
            values.extend_from_slice(&self.rows[q]);
        }
        (values, self.tree.witness(queries).0)
    }
}
