//! Reference models: boring, written independently of the code under test.
pub mod zint;
pub mod merkle;
pub mod sponge;
pub mod cfgpred;
pub mod fri;
#[cfg(feature = "full")]
pub mod stonefile;
#[cfg(feature = "full")]
pub mod pubin;

/// A `PublicInput` built through its serde form (robust against fields added to the struct that serde skips or
/// defaults - a struct literal would stop compiling).
#[allow(clippy::too_many_arguments)]
pub fn make_public_input(
    log_n_steps: starknet_crypto::Felt, range_check_min: starknet_crypto::Felt, range_check_max: starknet_crypto::Felt, layout: starknet_crypto::Felt, dynamic_params: Option<serde_json::Value>,
    segments: &[(starknet_crypto::Felt, starknet_crypto::Felt)], padding: (starknet_crypto::Felt, starknet_crypto::Felt), main_page: &[(starknet_crypto::Felt, starknet_crypto::Felt)], headers: &[(starknet_crypto::Felt, starknet_crypto::Felt, starknet_crypto::Felt, starknet_crypto::Felt)],
) -> swiftness_air::public_memory::PublicInput {
    let h = |f: &starknet_crypto::Felt| serde_json::Value::String(format!("{:#x}", f));
    let mut v = serde_json::json!({
        "log_n_steps": h(&log_n_steps), "range_check_min": h(&range_check_min), "range_check_max": h(&range_check_max), "layout": h(&layout),
        "segments": segments.iter().map(|(b, s)| serde_json::json!({"begin_addr": h(b), "stop_ptr": h(s)})).collect::<Vec<_>>(),
        "padding_addr": h(&padding.0), "padding_value": h(&padding.1),
        "main_page": main_page.iter().map(|(a, x)| serde_json::json!({"address": h(a), "value": h(x)})).collect::<Vec<_>>(),
        "continuous_page_headers": headers.iter().map(|(a, n, hs, p)| serde_json::json!({"start_address": h(a), "size": h(n), "hash": h(hs), "prod": h(p)})).collect::<Vec<_>>(),
    });
    if let Some(d) = dynamic_params {
        v["dynamic_params"] = d;
    }
    serde_json::from_value(v).expect("public input from its serde form")
}
