//! Reference models: boring, written independently of the code under test.
pub mod zint;
pub mod merkle;
pub mod sponge;
pub mod cfgpred;
pub mod fri;
#[cfg(feature = "full")]
pub mod stonefile;
#[cfg(feature = "full")]
pub mod pubin;
