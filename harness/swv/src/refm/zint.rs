//! Plain big-integer arithmetic modulo p = 2^251 + 17*2^192 + 1 (no `Felt` operations).
use num_bigint::BigUint;
use num_traits::{One, Zero};

pub fn p() -> BigUint {
    (BigUint::one() << 251) + (BigUint::from(17u32) << 192) + BigUint::one()
}
pub fn add(a: &BigUint, b: &BigUint) -> BigUint {
    (a + b) % p()
}
pub fn sub(a: &BigUint, b: &BigUint) -> BigUint {
    let p = p();
    ((a % &p) + &p - (b % &p)) % &p
}
pub fn mul(a: &BigUint, b: &BigUint) -> BigUint {
    (a * b) % p()
}
pub fn pow(a: &BigUint, e: &BigUint) -> BigUint {
    a.modpow(e, &p())
}
pub fn inv(a: &BigUint) -> BigUint {
    let p = p();
    assert!(!(a % &p).is_zero(), "zint::inv(0)");
    a.modpow(&(&p - BigUint::from(2u32)), &p)
}
pub fn neg_one() -> BigUint {
    p() - BigUint::one()
}
/// generator of the order-2^n subgroup: 3^((p-1)/2^n), n <= 192
pub fn root_of_unity(n: u32) -> BigUint {
    assert!(n <= 192);
    let e = (p() - BigUint::one()) >> n;
    BigUint::from(3u32).modpow(&e, &p())
}
pub fn bitrev(i: u64, bits: u32) -> u64 {
    if bits == 0 {
        return 0;
    }
    let mut r = 0u64;
    for k in 0..bits {
        if (i >> k) & 1 == 1 {
            r |= 1 << (bits - 1 - k);
        }
    }
    r
}
