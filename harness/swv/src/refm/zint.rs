//! Plain big-integer arithmetic modulo p = 2^251 + 17*2^192 + 1 (no `Felt` operations).
use num_bigint::BigUint;
use num_traits::{One, Zero};

pub fn p() -> BigUint {
    (BigUint::one() << 251) + (BigUint::from(17u32) << 192) + BigUint::one()
}
pub fn add(a: &BigUint, b: &BigUint) -> BigUint {
    (a + b) % p()
}
pub fn sub(a: &BigUint, b: &BigUint) -> BigUint {
    let p = p();
    ((a % &p) + &p - (b % &p)) % &p
}
pub fn mul(a: &BigUint, b: &BigUint) -> BigUint {
    (a * b) % p()
}
pub fn pow(a: &BigUint, e: &BigUint) -> BigUint {
    a.modpow(e, &p())
}
pub fn inv(a: &BigUint) -> BigUint {
    let p = p();
    assert!(!(a % &p).is_zero(), "zint::inv(0)");
    a.modpow(&(&p - BigUint::from(2u32)), &p)
}
pub fn neg_one() -> BigUint {
    p() - BigUint::one()
}
/// generator of the order-2^n subgroup: 3^((p-1)/2^n), n <= 192
pub fn root_of_unity(n: u32) -> BigUint {
    assert!(n <= 192);
    let e = (p() - BigUint::one()) >> n;
    BigUint::from(3u32).modpow(&e, &p())
}
pub fn bitrev(i: u64, bits: u32) -> u64 {
    if bits == 0 {
        return 0;
    }
    let mut r = 0u64;
    for k in 0..bits {
        if (i >> k) & 1 == 1 {
            r |= 1 << (bits - 1 - k);
        }
    }
    r
}

/// Multiplicative order of 2 modulo p (p - 1 = 2^192 * 5 * 7 * 98714381 * 166848103).
pub fn order_of_two() -> BigUint {
    let p = crate::kit::prime();
    let mut o = &p - BigUint::from(1u32);
    let two = BigUint::from(2u32);
    for q in [2u64, 5, 7, 98714381, 166848103] {
        let q = BigUint::from(q);
        while (&o % &q) == BigUint::from(0u32) && two.modpow(&(&o / &q), &p) == BigUint::from(1u32) {
            o /= &q;
        }
    }
    assert!(two.modpow(&o, &p) == BigUint::from(1u32));
    o
}
