//! The C11 predicate, on non-negative integers (never modulo the field).
use crate::kit::f2b;
use num_bigint::BigUint;
use num_traits::{One, ToPrimitive, Zero};
use swiftness_stark::config::StarkConfig;

#[derive(Clone, Debug, PartialEq, Eq)]
pub enum Judgement {
    Accept,
    Reject(String),
    /// shape the property does not speak about (surplus trailing vector elements)
    Unjudged(String),
}

fn u(n: u64) -> BigUint {
    BigUint::from(n)
}

/// `security_bits`, `cols_first`, `cols_second` are what the caller passes to validate().
pub fn judge(c: &StarkConfig, security_bits: &BigUint, cols_first: &BigUint, cols_second: &BigUint) -> Judgement {
    let rej = |s: &str| Judgement::Reject(s.to_string());
    let pow = u(c.proof_of_work.n_bits as u64);
    if pow < u(20) || pow > u(50) {
        return rej("proof-of-work bits outside 20..=50");
    }
    let lc = f2b(&c.log_n_cosets);
    if lc < u(1) || lc > u(16) {
        return rej("blow-up exponent outside 1..=16");
    }
    let nq = f2b(&c.n_queries);
    if nq < u(1) || nq > u(48) {
        return rej("query count outside 1..=48");
    }
    if &nq * &lc + &pow < *security_bits {
        return rej("queries * blow-up exponent + pow bits below the requested security level");
    }
    if f2b(&c.traces.original.n_columns) != *cols_first || f2b(&c.traces.interaction.n_columns) != *cols_second {
        return rej("trace column counts differ from the layout's");
    }
    let lt = f2b(&c.log_trace_domain_size);
    let eval = &lt + &lc;
    let nf = f2b(&c.n_verifier_friendly_commitment_layers);
    for (name, v) in [
        ("original", &c.traces.original.vector),
        ("interaction", &c.traces.interaction.vector),
        ("composition", &c.composition.vector),
    ] {
        if f2b(&v.height) != eval {
            return Judgement::Reject(format!("{} commitment height != trace exponent + blow-up exponent", name));
        }
        if f2b(&v.n_verifier_friendly_commitment_layers) != nf {
            return Judgement::Reject(format!("{} commitment friendly-layer count differs from the global one", name));
        }
    }
    // FRI
    let f = &c.fri;
    let nl = f2b(&f.n_layers);
    if nl < u(2) || nl > u(15) {
        return rej("FRI layer count outside 2..=15");
    }
    let nl = nl.to_usize().unwrap();
    if f.fri_step_sizes.len() < nl || f.inner_layers.len() < nl - 1 {
        return rej("fewer FRI steps / inner-layer descriptions than layers");
    }
    let last = f2b(&f.log_last_layer_degree_bound);
    if last > u(15) {
        return rej("last-layer bound above 2^15");
    }
    if !f2b(&f.fri_step_sizes[0]).is_zero() {
        return rej("first FRI step is not 0");
    }
    let lis = f2b(&f.log_input_size);
    let mut sum = BigUint::zero();
    for i in 1..nl {
        let s = f2b(&f.fri_step_sizes[i]);
        if s < u(1) || s > u(4) {
            return rej("FRI step outside 1..=4");
        }
        sum += &s;
        let il = &f.inner_layers[i - 1];
        if f2b(&il.n_columns) != (BigUint::one() << s.to_u32().unwrap()) {
            return rej("inner layer column count != 2^step");
        }
        // telescoping heights on integers: height_i = log_input_size - (s_1 + ... + s_i), must not go negative
        if lis < sum || f2b(&il.vector.height) != &lis - &sum {
            return rej("inner layer height does not telescope");
        }
        if f2b(&il.vector.n_verifier_friendly_commitment_layers) != nf {
            return rej("inner layer friendly-layer count differs from the global one");
        }
    }
    if lis != &sum + &last + &lc {
        return rej("FRI input exponent != sum of steps + last-layer bound + blow-up exponent");
    }
    if lis != eval {
        return rej("FRI input exponent != evaluation-domain exponent");
    }
    if f.fri_step_sizes.len() > nl || f.inner_layers.len() > nl - 1 {
        return Judgement::Unjudged("surplus FRI steps / inner-layer descriptions beyond n_layers".into());
    }
    Judgement::Accept
}
