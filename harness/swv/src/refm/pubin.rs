//! Address-based public-memory oracle (C03, C14): program / output hashes looked up
//! BY ADDRESS, and the validity rules of public-input validation on integers.
use crate::kit::f2b;
use num_bigint::BigUint;
use num_traits::{One, ToPrimitive, Zero};
use starknet_crypto::{pedersen_hash, Felt};
use std::collections::BTreeMap;
use swiftness_air::public_memory::PublicInput;

fn chain(vals: &[Felt]) -> Felt {
    let h = vals.iter().fold(Felt::ZERO, |acc, v| pedersen_hash(&acc, v));
    pedersen_hash(&h, &Felt::from(vals.len() as u64))
}

#[derive(Debug, Clone, PartialEq)]
pub enum Hashes {
    /// every (program hash, output hash) pair that a by-address reading of the main page
    /// supports (more than one only when a program / output address appears twice with
    /// different values)
    Pairs(Vec<(Felt, Felt)>),
    /// the main page does not hold the program / output cells at their addresses
    Malformed(String),
}

fn combos(cells: &[Vec<Felt>]) -> Option<Vec<Vec<Felt>>> {
    let mut out: Vec<Vec<Felt>> = vec![Vec::with_capacity(cells.len())];
    for c in cells {
        let mut next = Vec::new();
        for o in &out {
            for v in c {
                let mut n = o.clone();
                n.push(*v);
                next.push(n);
            }
        }
        if next.len() > 16 {
            return None;
        }
        out = next;
    }
    Some(out)
}

/// Program = values at addresses initial_pc .. initial_fp-3 (inclusive), output = values at
/// output_begin .. output_stop-1, both looked up by address in the main page.
pub fn expected_hashes(pi: &PublicInput) -> Hashes {
    let seg = |i: usize| pi.segments.get(i).map(|s| (f2b(&s.begin_addr), f2b(&s.stop_ptr)));
    let (program, execution, output) = match (seg(0), seg(1), seg(2)) {
        (Some(a), Some(b), Some(c)) => (a, b, c),
        _ => return Hashes::Malformed("program / execution / output segment missing".into()),
    };
    let initial_pc = program.0;
    let initial_fp = execution.0;
    // address -> distinct values found at that address
    let mut mem: BTreeMap<BigUint, Vec<Felt>> = BTreeMap::new();
    for c in pi.main_page.iter() {
        let e = mem.entry(f2b(&c.address)).or_default();
        if !e.contains(&c.value) {
            e.push(c.value);
        }
    }
    let three = BigUint::from(3u32);
    if initial_fp < &initial_pc + &three {
        return Hashes::Malformed("initial fp below initial pc + 3".into());
    }
    let n_prog = match (&initial_fp - &three - &initial_pc + BigUint::one()).to_usize() {
        Some(n) if n <= pi.main_page.len() => n,
        _ => return Hashes::Malformed("program longer than the main page".into()),
    };
    let mut prog = Vec::with_capacity(n_prog);
    let mut a = initial_pc.clone();
    for _ in 0..n_prog {
        match mem.get(&a) {
            Some(v) => prog.push(v.clone()),
            None => return Hashes::Malformed(format!("program cell at address {} missing from the main page", a)),
        }
        a += BigUint::one();
    }
    if output.1 < output.0 {
        return Hashes::Malformed("output stop below begin".into());
    }
    let n_out = match (&output.1 - &output.0).to_usize() {
        Some(n) if n <= pi.main_page.len() => n,
        _ => return Hashes::Malformed("output longer than the main page".into()),
    };
    let mut out = Vec::with_capacity(n_out);
    let mut a = output.0.clone();
    for _ in 0..n_out {
        match mem.get(&a) {
            Some(v) => out.push(v.clone()),
            None => return Hashes::Malformed(format!("output cell at address {} missing from the main page", a)),
        }
        a += BigUint::one();
    }
    let _ = BigUint::zero();
    // program cells first, output cells last: a page with fewer cells than both regions together is too short
    if n_prog + n_out > pi.main_page.len() {
        return Hashes::Malformed("main page shorter than program + output".into());
    }
    match (combos(&prog), combos(&out)) {
        (Some(ps), Some(os)) => {
            let mut v = Vec::new();
            for p in &ps {
                for o in &os {
                    v.push((chain(p), chain(o)));
                }
            }
            Hashes::Pairs(v)
        }
        _ => Hashes::Malformed("too many conflicting cells at program / output addresses".into()),
    }
}

// ------------------------------------------------------------------ validity (C14)
/// (segment index, memory cells per instance, trace rows per instance)
pub struct BuiltinRule {
    pub name: &'static str,
    pub segment: usize,
    pub cells: u64,
    pub row_ratio: u64,
}
pub struct LayoutRules {
    pub name: &'static str,
    pub n_segments: usize,
    pub cpu_component_step: u64,
    pub builtins: Vec<BuiltinRule>,
}
fn br(name: &'static str, segment: usize, cells: u64, row_ratio: u64) -> BuiltinRule {
    BuiltinRule { name, segment, cells, row_ratio }
}
/// Layout definitions (Cairo layout specifications), stated here independently of the code.
pub fn rules(layout: &str) -> Option<LayoutRules> {
    let (n, b) = match layout {
        "dex" | "small" => (6, vec![br("pedersen", 3, 3, 128), br("range_check", 4, 1, 128), br("ecdsa", 5, 2, 8192)]),
        "recursive" => (6, vec![br("pedersen", 3, 3, 2048), br("range_check", 4, 1, 128), br("bitwise", 5, 5, 128)]),
        "recursive_with_poseidon" => (7, vec![br("pedersen", 3, 3, 4096), br("range_check", 4, 1, 256), br("bitwise", 5, 5, 256), br("poseidon", 6, 6, 1024)]),
        "starknet" => (9, vec![br("pedersen", 3, 3, 512), br("range_check", 4, 1, 256), br("ecdsa", 5, 2, 32768), br("bitwise", 6, 5, 1024), br("ec_op", 7, 7, 16384), br("poseidon", 8, 6, 512)]),
        "starknet_with_keccak" => (10, vec![br("pedersen", 3, 3, 512), br("range_check", 4, 1, 256), br("ecdsa", 5, 2, 32768), br("bitwise", 6, 5, 1024), br("ec_op", 7, 7, 16384), br("keccak", 8, 16, 32768), br("poseidon", 9, 6, 512)]),
        _ => return None,
    };
    Some(LayoutRules { name: match layout { "dex" => "dex", "small" => "small", "recursive" => "recursive", "recursive_with_poseidon" => "recursive_with_poseidon", "starknet" => "starknet", _ => "starknet_with_keccak" }, n_segments: n, cpu_component_step: 1, builtins: b })
}

#[derive(Debug, Clone, PartialEq)]
pub enum Validity {
    Valid,
    Invalid(String),
    /// the property does not decide this input (e.g. range-check min == max)
    Unjudged(String),
}

/// The C14 validity predicate on non-negative integers for the six static layouts.
/// `log_trace` is the trace-size exponent of the domains handed to validation.
pub fn validity(r: &LayoutRules, pi: &PublicInput, log_trace: &BigUint) -> Validity {
    let inv = |s: String| Validity::Invalid(s);
    // step count: 2^log_n_steps * 16 * step == 2^log_trace
    let lns = f2b(&pi.log_n_steps);
    if lns >= BigUint::from(80u32) {
        return inv("log_n_steps >= 80".into());
    }
    let step_log = r.cpu_component_step.trailing_zeros() as u64;
    if &lns + BigUint::from(4 + step_log) != *log_trace {
        return inv("step count does not match the trace length".into());
    }
    if pi.segments.len() != r.n_segments {
        return inv("segment count".into());
    }
    let (mn, mx) = (f2b(&pi.range_check_min), f2b(&pi.range_check_max));
    if mn > mx {
        return inv("range-check min > max".into());
    }
    if mx > BigUint::from(65535u32) {
        return inv("range-check max above 2^16-1".into());
    }
    let code = BigUint::from_bytes_be(r.name.as_bytes());
    if f2b(&pi.layout) != code {
        return inv("layout code".into());
    }
    let t = log_trace.to_u32().unwrap_or(u32::MAX);
    let seg = |i: usize| (f2b(&pi.segments[i].begin_addr), f2b(&pi.segments[i].stop_ptr));
    let (ob, os) = seg(2);
    if os < ob {
        return inv("output stop below begin".into());
    }
    for b in &r.builtins {
        let (bg, st) = seg(b.segment);
        if st < bg {
            return inv(format!("{} stop below begin", b.name));
        }
        let used = &st - &bg;
        if !(&used % BigUint::from(b.cells)).is_zero() {
            return inv(format!("{} usage is not a whole number of instances", b.name));
        }
        let uses = &used / BigUint::from(b.cells);
        let ratio_log = b.row_ratio.trailing_zeros();
        let copies = if t >= ratio_log && t - ratio_log < 250 { BigUint::one() << (t - ratio_log) } else { BigUint::zero() };
        if uses > copies {
            return inv(format!("{} uses more instances than the trace holds", b.name));
        }
    }
    if mn == mx {
        return Validity::Unjudged("range-check min == max".into());
    }
    Validity::Valid
}

