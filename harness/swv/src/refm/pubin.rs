//! Address-based public-memory oracle (C03, C14): program / output hashes looked up
//! BY ADDRESS, and the validity rules of public-input validation on integers.
use crate::kit::f2b;
use num_bigint::BigUint;
use num_traits::{One, ToPrimitive, Zero};
use starknet_crypto::{pedersen_hash, Felt};
use std::collections::BTreeMap;
use swiftness_air::public_memory::PublicInput;

fn chain(vals: &[Felt]) -> Felt {
    let h = vals.iter().fold(Felt::ZERO, |acc, v| pedersen_hash(&acc, v));
    pedersen_hash(&h, &Felt::from(vals.len() as u64))
}

#[derive(Debug, Clone, PartialEq)]
pub enum Hashes {
    /// (program hash, output hash)
    Pair(Felt, Felt),
    /// the main page does not hold the program / output cells at their addresses
    Malformed(String),
}

/// Program = values at addresses initial_pc .. initial_fp-3 (inclusive), output = values at
/// output_begin .. output_stop-1, both looked up by address in the main page.
pub fn expected_hashes(pi: &PublicInput) -> Hashes {
    let seg = |i: usize| pi.segments.get(i).map(|s| (f2b(&s.begin_addr), f2b(&s.stop_ptr)));
    let (program, execution, output) = match (seg(0), seg(1), seg(2)) {
        (Some(a), Some(b), Some(c)) => (a, b, c),
        _ => return Hashes::Malformed("program / execution / output segment missing".into()),
    };
    let initial_pc = program.0;
    let initial_fp = execution.0;
    // address -> value; a repeated address with a different value is malformed
    let mut mem: BTreeMap<BigUint, Felt> = BTreeMap::new();
    for c in pi.main_page.iter() {
        let a = f2b(&c.address);
        if let Some(prev) = mem.get(&a) {
            if *prev != c.value {
                return Hashes::Malformed(format!("address {} appears twice with different values", a));
            }
        }
        mem.insert(a, c.value);
    }
    let three = BigUint::from(3u32);
    if initial_fp < &initial_pc + &three {
        return Hashes::Malformed("initial fp below initial pc + 3".into());
    }
    let n_prog = match (&initial_fp - &three - &initial_pc + BigUint::one()).to_usize() {
        Some(n) if n <= pi.main_page.len() => n,
        _ => return Hashes::Malformed("program longer than the main page".into()),
    };
    let mut prog = Vec::with_capacity(n_prog);
    let mut a = initial_pc.clone();
    for _ in 0..n_prog {
        match mem.get(&a) {
            Some(v) => prog.push(*v),
            None => return Hashes::Malformed(format!("program cell at address {} missing from the main page", a)),
        }
        a += BigUint::one();
    }
    if output.1 < output.0 {
        return Hashes::Malformed("output stop below begin".into());
    }
    let n_out = match (&output.1 - &output.0).to_usize() {
        Some(n) if n <= pi.main_page.len() => n,
        _ => return Hashes::Malformed("output longer than the main page".into()),
    };
    let mut out = Vec::with_capacity(n_out);
    let mut a = output.0.clone();
    for _ in 0..n_out {
        match mem.get(&a) {
            Some(v) => out.push(*v),
            None => return Hashes::Malformed(format!("output cell at address {} missing from the main page", a)),
        }
        a += BigUint::one();
    }
    let _ = BigUint::zero();
    Hashes::Pair(chain(&prog), chain(&out))
}
