//! swv - bounded exhaustive exploration harness for iosis-tech/swiftness (see /verif/DESIGN.md).
pub mod kit;
pub mod props;
pub mod refm;

use kit::{report::Report, Ctx, Tier};
use serde_json::Value;
use std::time::Instant;

fn usage() -> i32 {
    eprintln!("usage: swv-<lite|full> <property> [--tier quick|thorough] [--seed N] [--out FILE] [--replay FILE] [--repo DIR]");
    2
}

/// Exit codes: 0 ran to completion (violations, if any, are in the partial report -
/// the driver decides), 2 machinery error, 3 replay reproduced a violation.
pub fn entry() -> i32 {
    kit::panics::install();
    // deep (non-tail) recursion in the code under test on large honest inputs must not take the harness down:
    // generous stacks for the worker threads (virtual memory only)
    let _ = rayon::ThreadPoolBuilder::new().stack_size(256 << 20).build_global();
    let args: Vec<String> = std::env::args().collect();
    if args.len() < 2 {
        return usage();
    }
    let prop = args[1].clone();
    let mut tier = match std::env::var("VERIF_TIER").ok().as_deref() {
        Some("thorough") => Tier::Thorough,
        _ => Tier::Quick,
    };
    let mut seed: u64 = std::env::var("VERIF_SEED").ok().and_then(|s| s.parse().ok()).unwrap_or(0);
    let mut out: Option<String> = None;
    let mut replay: Option<String> = None;
    let mut repo = "/repo".to_string();
    let mut i = 2;
    while i < args.len() {
        let need = |i: usize| -> Option<&String> { args.get(i + 1) };
        match args[i].as_str() {
            "--tier" => {
                tier = match need(i).map(|s| s.as_str()) {
                    Some("quick") => Tier::Quick,
                    Some("thorough") => Tier::Thorough,
                    _ => return usage(),
                };
                i += 2;
            }
            "--seed" => {
                seed = match need(i).and_then(|s| s.parse().ok()) {
                    Some(s) => s,
                    None => return usage(),
                };
                i += 2;
            }
            "--out" => {
                out = need(i).cloned();
                i += 2;
            }
            "--replay" => {
                replay = need(i).cloned();
                i += 2;
            }
            "--worker" => {
                #[cfg(feature = "full")]
                if prop == "C17" {
                    return props::c17::worker();
                }
                return usage();
            }
            "--repo" => {
                repo = match need(i) {
                    Some(s) => s.clone(),
                    None => return usage(),
                };
                i += 2;
            }
            _ => return usage(),
        }
    }
    let ctx = Ctx { tier, seed, repo };
    if let Some(path) = replay {
        let text = match std::fs::read_to_string(&path) {
            Ok(t) => t,
            Err(e) => {
                eprintln!("MACHINERY-ERROR: cannot read replay {}: {}", path, e);
                return 2;
            }
        };
        let v: Value = match serde_json::from_str(&text) {
            Ok(v) => v,
            Err(e) => {
                eprintln!("MACHINERY-ERROR: replay {} is not JSON: {}", path, e);
                return 2;
            }
        };
        let case = v.get("replay").cloned().unwrap_or(v.clone());
        if case.get("kind").and_then(|k| k.as_str()) == Some("stuck") {
            println!("REPLAY property={} build={} violated=true a call did not terminate; re-run `./check {}` to reproduce (the stuck case: {})", prop, kit::build_label(), prop, case["case"]);
            return 3;
        }
        // determinism self-test: the same case twice must give identical observations
        let a = props::replay(&prop, &ctx, &case);
        let b = props::replay(&prop, &ctx, &case);
        if a != b {
            eprintln!("MACHINERY-ERROR: replay is not deterministic: {:?} vs {:?}", a, b);
            return 2;
        }
        return match a {
            Ok((violated, text)) => {
                println!("REPLAY property={} build={} violated={} {}", prop, kit::build_label(), violated, text);
                if violated {
                    3
                } else {
                    0
                }
            }
            Err(e) => {
                eprintln!("MACHINERY-ERROR: {}", e);
                2
            }
        };
    }
    let t0 = Instant::now();
    // watchdog: a single call into swiftness that does not return within the cap ends the run
    // with a non-termination violation (C17 isolates its cases in worker processes itself)
    kit::watch::start(prop.clone(), kit::build_label(), tier.name(), seed, out.clone(), if tier == Tier::Quick { 90 } else { 300 });
    let rep: Report = match props::run(&prop, &ctx) {
        Some(r) => r,
        None => {
            eprintln!("MACHINERY-ERROR: property {} is not served by this binary ({})", prop,
                if cfg!(feature = "full") { "full" } else { "lite" });
            return 2;
        }
    };
    let wall = t0.elapsed().as_secs_f64();
    let j = rep.to_json(kit::build_label(), tier.name(), seed, wall);
    let text = serde_json::to_string_pretty(&j).unwrap();
    match out {
        Some(p) => {
            if let Err(e) = std::fs::write(&p, text) {
                eprintln!("MACHINERY-ERROR: cannot write {}: {}", p, e);
                return 2;
            }
        }
        None => println!("{}", text),
    }
    eprintln!(
        "[{} {} {}] evaluations={} distinct_nontrivial={} outcomes={:?} violations={} exhaustive={} wall={:.1}s",
        prop, kit::build_label(), tier.name(), rep.evaluations, rep.nontrivial, rep.outcomes,
        rep.violations.len(), rep.exhaustive, wall
    );
    if !rep.machinery_errors.is_empty() {
        for m in &rep.machinery_errors {
            eprintln!("MACHINERY-ERROR: {}", m);
        }
        return 2;
    }
    0
}
