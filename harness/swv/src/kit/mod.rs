//! Exploration kernel shared by all checks (DESIGN.md 2.3).
pub mod explore;
pub mod jsonwalk;
pub mod panics;
pub mod report;
pub mod watch;

use num_bigint::BigUint;
use num_traits::{One, Zero};
use starknet_crypto::Felt;

/// SplitMix64 - fills *value menus* only; shape enumeration never depends on it.
#[derive(Clone)]
pub struct SplitMix(pub u64);
impl SplitMix {
    pub fn new(seed: u64) -> Self {
        SplitMix(seed.wrapping_mul(0x9E37_79B9_7F4A_7C15) ^ 0xD1B5_4A32_D192_ED03)
    }
    pub fn next_u64(&mut self) -> u64 {
        self.0 = self.0.wrapping_add(0x9E37_79B9_7F4A_7C15);
        let mut z = self.0;
        z = (z ^ (z >> 30)).wrapping_mul(0xBF58_476D_1CE4_E5B9);
        z = (z ^ (z >> 27)).wrapping_mul(0x94D0_49BB_1331_11EB);
        z ^ (z >> 31)
    }
    pub fn below(&mut self, n: u64) -> u64 {
        self.next_u64() % n
    }
    /// A felt that is (for all practical purposes) distinct from every other one drawn.
    pub fn felt(&mut self) -> Felt {
        let mut b = [0u8; 32];
        for i in 0..4 {
            b[i * 8..(i + 1) * 8].copy_from_slice(&self.next_u64().to_be_bytes());
        }
        b[0] &= 0x03; // < 2^250 < p
        Felt::from_bytes_be(&b)
    }
    pub fn felts(&mut self, n: usize) -> Vec<Felt> {
        (0..n).map(|_| self.felt()).collect()
    }
}

pub fn prime() -> BigUint {
    (BigUint::one() << 251) + (BigUint::from(17u32) << 192) + BigUint::one()
}
pub fn f2b(f: &Felt) -> BigUint {
    BigUint::from_bytes_be(&f.to_bytes_be())
}
/// BigUint -> Felt, reducing modulo p (explicitly, in integer arithmetic).
pub fn b2f(b: &BigUint) -> Felt {
    let r = b % prime();
    let bytes = r.to_bytes_be();
    let mut buf = [0u8; 32];
    buf[32 - bytes.len()..].copy_from_slice(&bytes);
    Felt::from_bytes_be(&buf)
}
pub fn fu(n: u64) -> Felt {
    Felt::from(n)
}
pub fn fhex(f: &Felt) -> String {
    format!("{:#x}", f)
}
pub fn pow2(e: u32) -> BigUint {
    BigUint::one() << e
}
pub fn bzero() -> BigUint {
    BigUint::zero()
}
pub fn p_minus(k: u32) -> Felt {
    b2f(&(prime() - BigUint::from(k)))
}

/// Tier of a run.
#[derive(Clone, Copy, PartialEq, Eq, Debug)]
pub enum Tier {
    Quick,
    Thorough,
}
impl Tier {
    pub fn name(self) -> &'static str {
        match self {
            Tier::Quick => "quick",
            Tier::Thorough => "thorough",
        }
    }
}

/// Which feature combination this binary was compiled for.
pub fn build_name() -> &'static str {
    if cfg!(feature = "k160") && cfg!(feature = "s5") {
        "k160s5"
    } else if cfg!(feature = "k160") && cfg!(feature = "s6") {
        "k160s6"
    } else if cfg!(feature = "k248") && cfg!(feature = "s5") {
        "k248s5"
    } else if cfg!(feature = "k248") && cfg!(feature = "s6") {
        "k248s6"
    } else if cfg!(feature = "b160") && cfg!(feature = "s5") {
        "b160s5"
    } else if cfg!(feature = "b160") && cfg!(feature = "s6") {
        "b160s6"
    } else if cfg!(feature = "b248") && cfg!(feature = "s5") {
        "b248s5"
    } else if cfg!(feature = "b248") && cfg!(feature = "s6") {
        "b248s6"
    } else {
        "unknown"
    }
}
/// Build label of the reports: the feature combination, with an `n` appended when the repository crates are
/// compiled without their `std` feature (the `no_std` family of the lite binary).
pub fn build_label() -> &'static str {
    if cfg!(feature = "std") {
        build_name()
    } else {
        Box::leak(format!("{}n", build_name()).into_boxed_str())
    }
}
#[derive(Clone, Copy, PartialEq, Eq, Debug)]
pub enum HashKind {
    Keccak,
    Blake2s,
}
/// (hash family, mask width in bits) of the commitment hash this binary was built with.
pub fn build_hash() -> (HashKind, u32) {
    if cfg!(feature = "k160") {
        (HashKind::Keccak, 160)
    } else if cfg!(feature = "k248") {
        (HashKind::Keccak, 248)
    } else if cfg!(feature = "b160") {
        (HashKind::Blake2s, 160)
    } else {
        (HashKind::Blake2s, 248)
    }
}
pub fn build_stone6() -> bool {
    cfg!(feature = "s6")
}

pub struct Ctx {
    pub tier: Tier,
    pub seed: u64,
    pub repo: String,
}
impl Ctx {
    pub fn quick(&self) -> bool {
        self.tier == Tier::Quick
    }
    pub fn rng(&self, stream: u64) -> SplitMix {
        SplitMix::new(self.seed.wrapping_mul(0x1000_0000_01B3).wrapping_add(stream))
    }
}
