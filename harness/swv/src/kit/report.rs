//! Partial result of one (property, build) run; the `check` driver merges partials of
//! all builds into /verif/evidence/<id>.json and applies known_findings.jsonl.
use serde_json::{json, Map, Value};
use std::collections::{BTreeMap, BTreeSet};

const MAX_SAMPLES: usize = 12;

#[derive(Clone, Debug)]
pub struct Violation {
    /// specific and stable: what fails (site / position class / input shape)
    pub key: String,
    pub what: String,
    /// self-contained replay payload (`{"kind":..., ...}`) understood by `--replay`
    pub replay: Value,
    pub count: u64,
}

pub struct Report {
    pub property: String,
    pub level: &'static str,
    pub rule: String,
    pub evaluations: u64,
    pub nontrivial: u64,
    distinct: BTreeSet<u64>,
    pub outcomes: BTreeMap<String, u64>,
    pub samples: Vec<Value>,
    sample_classes: BTreeSet<String>,
    pub violations: BTreeMap<String, Violation>,
    pub exhaustive: bool,
    pub caps: Vec<String>,
    pub bound_completed: String,
    pub states: u64,
    pub transitions: u64,
    pub max_depth: u64,
    pub traces_validated: u64,
    pub assumptions: Vec<String>,
    pub trusted_base: Vec<String>,
    pub extra: Map<String, Value>,
    pub machinery_errors: Vec<String>,
}

impl Report {
    pub fn new(property: &str, level: &'static str, rule: &str) -> Self {
        Report {
            property: property.to_string(),
            level,
            rule: rule.to_string(),
            evaluations: 0,
            nontrivial: 0,
            distinct: BTreeSet::new(),
            outcomes: BTreeMap::new(),
            samples: Vec::new(),
            sample_classes: BTreeSet::new(),
            violations: BTreeMap::new(),
            exhaustive: true,
            caps: Vec::new(),
            bound_completed: String::new(),
            states: 0,
            transitions: 0,
            max_depth: 0,
            traces_validated: 0,
            assumptions: Vec::new(),
            trusted_base: Vec::new(),
            extra: Map::new(),
            machinery_errors: Vec::new(),
        }
    }
    /// Count one execution of swiftness code with its observed outcome class.
    pub fn eval(&mut self, outcome: &str) {
        crate::kit::watch::EVALS.fetch_add(1, std::sync::atomic::Ordering::Relaxed);
        self.evaluations += 1;
        *self.outcomes.entry(outcome.to_string()).or_insert(0) += 1;
    }
    pub fn evals(&mut self, outcome: &str, n: u64) {
        self.evaluations += n;
        *self.outcomes.entry(outcome.to_string()).or_insert(0) += n;
    }
    /// Count a case that is non-trivial under `rule`; `id` identifies it (hash of the
    /// case description) so that repeats are not counted twice.
    pub fn nontrivial_case(&mut self, id: &str) {
        let h = fnv(id.as_bytes());
        if self.distinct.insert(h) {
            self.nontrivial += 1;
        }
    }
    /// Keep a sample; at most one per class until the cap, so that every observed
    /// outcome class is represented.
    pub fn sample(&mut self, class: &str, v: Value) {
        if self.samples.len() < MAX_SAMPLES && self.sample_classes.insert(class.to_string()) {
            self.samples.push(v);
        }
    }
    pub fn violation(&mut self, key: &str, what: &str, replay: Value) {
        match self.violations.get_mut(key) {
            Some(v) => v.count += 1,
            None => {
                self.violations.insert(
                    key.to_string(),
                    Violation { key: key.to_string(), what: what.to_string(), replay, count: 1 },
                );
            }
        }
    }
    pub fn cap(&mut self, what: &str) {
        self.exhaustive = false;
        self.caps.push(what.to_string());
    }
    pub fn machinery(&mut self, what: &str) {
        self.machinery_errors.push(what.to_string());
    }
    pub fn assume(&mut self, s: &str) {
        if !self.assumptions.iter().any(|a| a == s) {
            self.assumptions.push(s.to_string());
        }
    }
    pub fn trust(&mut self, s: &str) {
        if !self.trusted_base.iter().any(|a| a == s) {
            self.trusted_base.push(s.to_string());
        }
    }
    pub fn merge(&mut self, o: Report) {
        self.evaluations += o.evaluations;
        for h in o.distinct {
            if self.distinct.insert(h) {
                self.nontrivial += 1;
            }
        }
        for (k, v) in o.outcomes {
            *self.outcomes.entry(k).or_insert(0) += v;
        }
        for s in o.samples {
            if self.samples.len() < MAX_SAMPLES {
                self.samples.push(s);
            }
        }
        for (k, v) in o.violations {
            match self.violations.get_mut(&k) {
                Some(x) => x.count += v.count,
                None => {
                    self.violations.insert(k, v);
                }
            }
        }
        self.exhaustive &= o.exhaustive;
        self.caps.extend(o.caps);
        self.states += o.states;
        self.transitions += o.transitions;
        self.max_depth = self.max_depth.max(o.max_depth);
        self.traces_validated += o.traces_validated;
        for a in o.assumptions {
            self.assume(&a);
        }
        for a in o.trusted_base {
            self.trust(&a);
        }
        for (k, v) in o.extra {
            self.extra.insert(k, v);
        }
        self.machinery_errors.extend(o.machinery_errors);
    }
    pub fn to_json(&self, build: &str, tier: &str, seed: u64, wall_s: f64) -> Value {
        json!({
            "property_id": self.property,
            "build": build,
            "tier": tier,
            "seed": seed,
            "level": self.level,
            "wall_s": wall_s,
            "rule": self.rule,
            "evaluations": self.evaluations,
            "distinct_nontrivial": self.nontrivial,
            "outcomes": self.outcomes,
            "samples": self.samples,
            "violations": self.violations.values().map(|v| json!({
                "key": v.key, "what": v.what, "replay": v.replay, "count": v.count
            })).collect::<Vec<_>>(),
            "exhaustive": self.exhaustive,
            "caps": self.caps,
            "bound_completed": self.bound_completed,
            "states": self.states,
            "transitions": self.transitions,
            "max_depth": self.max_depth,
            "traces_validated_against_impl": self.traces_validated,
            "assumptions": self.assumptions,
            "trusted_base": self.trusted_base,
            "extra": self.extra,
            "machinery_errors": self.machinery_errors,
        })
    }
}

pub fn fnv(b: &[u8]) -> u64 {
    let mut h: u64 = 0xcbf29ce484222325;
    for x in b {
        h ^= *x as u64;
        h = h.wrapping_mul(0x100000001b3);
    }
    h
}
