//! Walking typed values through their serde_json tree: every leaf is a position, every
//! array a vector (deviation sweeps, DESIGN.md 2.3 engine 3).
use serde_json::Value;

#[derive(Clone, Debug, PartialEq, Eq, Hash, PartialOrd, Ord)]
pub enum Seg {
    Key(String),
    Idx(usize),
}
pub type Path = Vec<Seg>;

pub fn path_str(p: &Path) -> String {
    let mut s = String::new();
    for seg in p {
        match seg {
            Seg::Key(k) => {
                if !s.is_empty() {
                    s.push('.');
                }
                s.push_str(k);
            }
            Seg::Idx(i) => s.push_str(&format!("[{}]", i)),
        }
    }
    s
}
/// Path with indices erased: the *position class*.
pub fn path_class(p: &Path) -> String {
    let mut s = String::new();
    for seg in p {
        match seg {
            Seg::Key(k) => {
                if !s.is_empty() {
                    s.push('.');
                }
                s.push_str(k);
            }
            Seg::Idx(_) => s.push_str("[]"),
        }
    }
    s
}
pub fn parse_path(s: &str) -> Path {
    let mut out = Vec::new();
    for part in s.split('.') {
        let mut rest = part;
        if let Some(b) = rest.find('[') {
            if b > 0 {
                out.push(Seg::Key(rest[..b].to_string()));
            }
            rest = &rest[b..];
            while let Some(e) = rest.find(']') {
                out.push(Seg::Idx(rest[1..e].parse().expect("bad index in path")));
                rest = &rest[e + 1..];
            }
        } else if !rest.is_empty() {
            out.push(Seg::Key(rest.to_string()));
        }
    }
    out
}

/// All leaves (non-container values) in document order.
pub fn leaves(v: &Value) -> Vec<Path> {
    let mut out = Vec::new();
    fn rec(v: &Value, cur: &mut Path, out: &mut Vec<Path>) {
        match v {
            Value::Object(m) => {
                for (k, c) in m {
                    cur.push(Seg::Key(k.clone()));
                    rec(c, cur, out);
                    cur.pop();
                }
            }
            Value::Array(a) => {
                for (i, c) in a.iter().enumerate() {
                    cur.push(Seg::Idx(i));
                    rec(c, cur, out);
                    cur.pop();
                }
            }
            _ => out.push(cur.clone()),
        }
    }
    rec(v, &mut Vec::new(), &mut out);
    out
}
/// All arrays (including empty ones) in document order.
pub fn arrays(v: &Value) -> Vec<Path> {
    let mut out = Vec::new();
    fn rec(v: &Value, cur: &mut Path, out: &mut Vec<Path>) {
        match v {
            Value::Object(m) => {
                for (k, c) in m {
                    cur.push(Seg::Key(k.clone()));
                    rec(c, cur, out);
                    cur.pop();
                }
            }
            Value::Array(a) => {
                out.push(cur.clone());
                for (i, c) in a.iter().enumerate() {
                    cur.push(Seg::Idx(i));
                    rec(c, cur, out);
                    cur.pop();
                }
            }
            _ => {}
        }
    }
    rec(v, &mut Vec::new(), &mut out);
    out
}
pub fn get<'a>(v: &'a Value, p: &Path) -> Option<&'a Value> {
    let mut cur = v;
    for seg in p {
        cur = match seg {
            Seg::Key(k) => cur.get(k)?,
            Seg::Idx(i) => cur.get(*i)?,
        };
    }
    Some(cur)
}
pub fn get_mut<'a>(v: &'a mut Value, p: &Path) -> Option<&'a mut Value> {
    let mut cur = v;
    for seg in p {
        cur = match seg {
            Seg::Key(k) => cur.get_mut(k)?,
            Seg::Idx(i) => cur.get_mut(*i)?,
        };
    }
    Some(cur)
}
pub fn set(v: &mut Value, p: &Path, new: Value) {
    *get_mut(v, p).expect("jsonwalk::set: no such path") = new;
}
