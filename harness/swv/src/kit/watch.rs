//! Watchdog against non-termination of the code under test.  Every call into swiftness goes
//! through `panics::catch`, which stamps a per-thread slot; a watchdog thread scans the slots
//! and, if one call has been running for longer than the cap, writes a partial report that
//! contains a `non-termination` violation for the stuck case and ends the process (a stuck
//! thread cannot be cancelled).  The cap is two orders of magnitude above any honest call.
use serde_json::json;
use std::sync::atomic::{AtomicU64, Ordering};
use std::sync::{Arc, Mutex, OnceLock};
use std::time::{Duration, Instant};

pub struct Slot {
    start_ms: AtomicU64,
    case: Mutex<String>,
}
static REG: OnceLock<Mutex<Vec<Arc<Slot>>>> = OnceLock::new();
static T0: OnceLock<Instant> = OnceLock::new();
pub static EVALS: AtomicU64 = AtomicU64::new(0);

thread_local! {
    static SLOT: Arc<Slot> = {
        let s = Arc::new(Slot { start_ms: AtomicU64::new(0), case: Mutex::new(String::new()) });
        REG.get_or_init(|| Mutex::new(Vec::new())).lock().unwrap().push(s.clone());
        s
    };
}
fn now_ms() -> u64 {
    T0.get_or_init(Instant::now).elapsed().as_millis() as u64 + 1
}
pub fn enter() {
    SLOT.with(|s| s.start_ms.store(now_ms(), Ordering::Relaxed));
}
pub fn leave() {
    SLOT.with(|s| s.start_ms.store(0, Ordering::Relaxed));
}
/// Optional: describe the case the current thread is about to run (cheap cases only).
pub fn set_case(desc: String) {
    SLOT.with(|s| *s.case.lock().unwrap() = desc);
}

pub fn start(prop: String, build: &'static str, tier: &'static str, seed: u64, out: Option<String>, cap_s: u64) {
    let _ = now_ms();
    std::thread::spawn(move || loop {
        std::thread::sleep(Duration::from_secs(2));
        let now = now_ms();
        let reg = match REG.get() {
            Some(r) => r.lock().unwrap().clone(),
            None => continue,
        };
        for s in reg {
            let st = s.start_ms.load(Ordering::Relaxed);
            if st != 0 && now.saturating_sub(st) > cap_s * 1000 {
                let case = s.case.lock().unwrap().clone();
                let what = format!("a call into swiftness has been running for more than {} s and was abandoned (non-termination / unbounded work); last case set by this thread: {}", cap_s, if case.is_empty() { "<not recorded>" } else { &case });
                let rep = json!({
                    "property_id": prop, "build": build, "tier": tier, "seed": seed, "level": "exploration", "wall_s": now as f64 / 1000.0,
                    "rule": "run abandoned by the watchdog", "evaluations": EVALS.load(Ordering::Relaxed).max(1), "distinct_nontrivial": 0,
                    "outcomes": {"STUCK": 1}, "samples": [{"stuck_case": case}],
                    "violations": [{"key": format!("non-termination:{}", prop), "what": what, "replay": {"kind": "stuck", "case": case}, "count": 1}],
                    "exhaustive": false, "caps": ["run abandoned by the watchdog: one call did not return"], "bound_completed": "",
                    "states": 0, "transitions": 0, "max_depth": 0, "traces_validated_against_impl": 0,
                    "assumptions": [], "trusted_base": [], "extra": {}, "machinery_errors": [],
                });
                let text = serde_json::to_string_pretty(&rep).unwrap();
                match &out {
                    Some(p) => {
                        let _ = std::fs::write(p, text);
                    }
                    None => println!("{}", text),
                }
                eprintln!("[{} {}] WATCHDOG: {}", prop, build, what);
                std::process::exit(0);
            }
        }
    });
}
