//! Stateless choice-point explorer (deviation-bounded DFS) and explicit-state BFS.
use std::collections::{HashMap, VecDeque};
use std::hash::Hash;

/// Handed to a case generator.  The generator is ordinary code that asks for choices;
/// the explorer re-runs it over every choice vector.
pub struct Chooser {
    prefix: Vec<usize>,
    /// (chosen, arity, costs_a_deviation)
    pub trace: Vec<(usize, usize, bool)>,
}
impl Chooser {
    fn next(&mut self, n: usize, dev: bool) -> usize {
        assert!(n > 0, "choice point with no alternatives");
        let i = self.trace.len();
        let c = if i < self.prefix.len() {
            let c = self.prefix[i];
            // a divergence while replaying a prefix is a hard error
            assert!(c < n, "explorer: replayed choice {} out of range {} at point {}", c, n, i);
            c
        } else {
            0
        };
        self.trace.push((c, n, dev));
        c
    }
    /// Free choice among `n` alternatives (shape enumeration).
    pub fn choose(&mut self, n: usize) -> usize {
        self.next(n, false)
    }
    pub fn pick<'a, T>(&mut self, menu: &'a [T]) -> &'a T {
        &menu[self.next(menu.len(), false)]
    }
    /// Choice 0 is the honest/default answer; any other costs one deviation.
    pub fn deviate(&mut self, n: usize) -> usize {
        self.next(n, true)
    }
    pub fn choices(&self) -> Vec<usize> {
        self.trace.iter().map(|t| t.0).collect()
    }
    pub fn deviations(&self) -> usize {
        self.trace.iter().filter(|t| t.2 && t.0 != 0).count()
    }
}

/// Enumerate every choice vector of `gen` whose number of deviations is <= `budget`
/// (None = unbounded).  Returns (choice vector, generated case) in DFS order.
pub fn enumerate<C>(budget: Option<usize>, mut gen: impl FnMut(&mut Chooser) -> C) -> Vec<(Vec<usize>, C)> {
    let mut out = Vec::new();
    let mut stack: Vec<Vec<usize>> = vec![vec![]];
    while let Some(prefix) = stack.pop() {
        let plen = prefix.len();
        let mut ch = Chooser { prefix, trace: Vec::new() };
        let case = gen(&mut ch);
        let choices = ch.choices();
        // schedule alternatives at every point after the prefix (reverse so DFS order is canonical)
        let mut devs_before: Vec<usize> = Vec::with_capacity(ch.trace.len());
        let mut d = 0;
        for t in &ch.trace {
            devs_before.push(d);
            if t.2 && t.0 != 0 {
                d += 1;
            }
        }
        for i in (plen..ch.trace.len()).rev() {
            let (_, n, dev) = ch.trace[i];
            if dev {
                if let Some(b) = budget {
                    if devs_before[i] + 1 > b {
                        continue;
                    }
                }
            }
            for alt in (1..n).rev() {
                let mut p = choices[..i].to_vec();
                p.push(alt);
                stack.push(p);
            }
        }
        out.push((choices, case));
    }
    out
}

/// Replay exactly one choice vector.
pub fn replay_choices<C>(choices: &[usize], mut gen: impl FnMut(&mut Chooser) -> C) -> C {
    let mut ch = Chooser { prefix: choices.to_vec(), trace: Vec::new() };
    let c = gen(&mut ch);
    assert!(ch.trace.len() >= choices.len(), "replay: generator consumed fewer choices than recorded");
    c
}

pub struct BfsStats {
    pub states: u64,
    pub transitions: u64,
    pub max_depth: u64,
}

/// Explicit-state breadth-first search.  `key` canonicalises a state (depth is added to
/// the key by the engine so that depth-bounded search is exact); `succ` produces the
/// labelled successors by calling real code; `visit` sees every *new* state once.
pub fn bfs<S: Clone, K: Hash + Eq + Clone, L>(
    inits: Vec<S>,
    max_depth: u64,
    key: impl Fn(&S) -> K,
    mut succ: impl FnMut(&S, u64) -> Vec<(L, S)>,
    mut visit: impl FnMut(&S, u64),
    mut edge: impl FnMut(&S, &L, &S, bool),
) -> BfsStats {
    let mut seen: HashMap<(u64, K), ()> = HashMap::new();
    let mut q: VecDeque<(S, u64)> = VecDeque::new();
    let mut st = BfsStats { states: 0, transitions: 0, max_depth: 0 };
    for s in inits {
        if seen.insert((0, key(&s)), ()).is_none() {
            st.states += 1;
            visit(&s, 0);
            q.push_back((s, 0));
        }
    }
    while let Some((s, d)) = q.pop_front() {
        if d >= max_depth {
            continue;
        }
        for (l, n) in succ(&s, d) {
            st.transitions += 1;
            let fresh = seen.insert((d + 1, key(&n)), ()).is_none();
            edge(&s, &l, &n, fresh);
            if fresh {
                st.states += 1;
                st.max_depth = st.max_depth.max(d + 1);
                visit(&n, d + 1);
                q.push_back((n, d + 1));
            }
        }
    }
    st
}

/// All subsets of {0..n-1} with size in 1..=max_size, in increasing lexicographic order
/// of their sorted element lists.
pub fn subsets(n: usize, max_size: usize) -> Vec<Vec<usize>> {
    let mut out = Vec::new();
    fn rec(start: usize, n: usize, max: usize, cur: &mut Vec<usize>, out: &mut Vec<Vec<usize>>) {
        if !cur.is_empty() {
            out.push(cur.clone());
        }
        if cur.len() == max {
            return;
        }
        for i in start..n {
            cur.push(i);
            rec(i + 1, n, max, cur, out);
            cur.pop();
        }
    }
    rec(0, n, max_size, &mut Vec::new(), &mut out);
    out
}
