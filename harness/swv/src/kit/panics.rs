//! Panic capture: a process-wide hook records `file:line` + message in a thread-local;
//! `catch` wraps every call into swiftness.  A panic located under /verif/harness is a
//! machinery error, never an observation.
use std::cell::RefCell;
use std::panic::{catch_unwind, AssertUnwindSafe};
use std::sync::Once;

#[derive(Clone, Debug, PartialEq, Eq, Hash, PartialOrd, Ord)]
pub struct PanicInfo {
    pub file: String,
    pub line: u32,
    pub msg: String,
}
impl PanicInfo {
    /// Site key without the line number (stable under unrelated edits of the file).
    pub fn site(&self) -> String {
        let f = self.file.trim_start_matches("/repo/");
        let f = match f.find("/vendor/") {
            Some(i) => &f[i + 8..],
            None => f,
        };
        let mut m: String = self.msg.chars().take(60).collect();
        // erase numbers (indices, lengths) so that one site is one key
        m = m.chars().map(|c| if c.is_ascii_digit() { '#' } else { c }).collect();
        while m.contains("##") {
            m = m.replace("##", "#");
        }
        format!("{}|{}", f, m)
    }
    pub fn in_harness(&self) -> bool {
        self.file.contains("/verif/harness") || self.file.starts_with("swv/") || self.file.starts_with("src/")
    }
}

thread_local! {
    static LAST: RefCell<Option<PanicInfo>> = const { RefCell::new(None) };
    static QUIET: RefCell<bool> = const { RefCell::new(false) };
}
static INIT: Once = Once::new();

pub fn install() {
    INIT.call_once(|| {
        let default = std::panic::take_hook();
        std::panic::set_hook(Box::new(move |info| {
            let (file, line) = match info.location() {
                Some(l) => (l.file().to_string(), l.line()),
                None => ("?".to_string(), 0),
            };
            let msg = if let Some(s) = info.payload().downcast_ref::<&str>() {
                s.to_string()
            } else if let Some(s) = info.payload().downcast_ref::<String>() {
                s.clone()
            } else {
                "<non-string panic>".to_string()
            };
            let quiet = QUIET.with(|q| *q.borrow());
            LAST.with(|l| *l.borrow_mut() = Some(PanicInfo { file, line, msg }));
            if !quiet {
                default(info);
            }
        }));
    });
}

/// Run `f`, turning a panic into `Err(PanicInfo)`.  Panics raised inside the harness
/// itself abort the run with exit code 2 (machinery error).
pub fn catch<T>(f: impl FnOnce() -> T) -> Result<T, PanicInfo> {
    install();
    QUIET.with(|q| *q.borrow_mut() = true);
    LAST.with(|l| *l.borrow_mut() = None);
    crate::kit::watch::enter();
    let r = catch_unwind(AssertUnwindSafe(f));
    crate::kit::watch::leave();
    QUIET.with(|q| *q.borrow_mut() = false);
    match r {
        Ok(v) => Ok(v),
        Err(_) => {
            let info = LAST.with(|l| l.borrow_mut().take()).unwrap_or(PanicInfo {
                file: "?".into(),
                line: 0,
                msg: "panic without hook record".into(),
            });
            if info.in_harness() {
                eprintln!("MACHINERY-ERROR: harness panic at {}:{}: {}", info.file, info.line, info.msg);
                std::process::exit(2);
            }
            Err(info)
        }
    }
}

/// Three-valued verdict of a call into the verifier.
#[derive(Clone, Debug, PartialEq, Eq)]
pub enum Verdict {
    Ok,
    Err(String),
    Panic(PanicInfo),
}
impl Verdict {
    pub fn accepted(&self) -> bool {
        matches!(self, Verdict::Ok)
    }
    pub fn class(&self) -> String {
        match self {
            Verdict::Ok => "ok".into(),
            Verdict::Err(e) => format!("err:{}", e),
            Verdict::Panic(p) => format!("panic:{}", p.site()),
        }
    }
    pub fn short(&self) -> &'static str {
        match self {
            Verdict::Ok => "ok",
            Verdict::Err(_) => "err",
            Verdict::Panic(_) => "panic",
        }
    }
}
pub fn verdict<T, E: std::fmt::Debug>(f: impl FnOnce() -> Result<T, E>) -> Verdict {
    match catch(f) {
        Ok(Ok(_)) => Verdict::Ok,
        Ok(Err(e)) => {
            // keep only the variant path, not payload values
            let s = format!("{:?}", e);
            let s: String = s.split(|c| c == '{' || c == '"').next().unwrap_or("").trim().to_string();
            Verdict::Err(s)
        }
        Err(p) => Verdict::Panic(p),
    }
}
